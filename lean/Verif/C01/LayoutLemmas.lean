/-
C01 — the lexer reads the indented layout (`renderInd`) back as the token list of the encoder.
-/
import Verif.C01.LayoutSpec
import Verif.C01.LexLemmas
import Verif.C01.LexToksLemmas

namespace Verif.C01.LayL
open Verif.Codec Verif.Tables Verif.C01 Verif.C01.Lex Verif.C01.LexL Verif.C01.LexT

/-! ### lines -/

def lexLines (ls : List Str) : Option (List T) :=
  ls.foldr (fun l acc => match lexLine (l.length + 1) l, acc with
    | some a, some b => some (a ++ b)
    | _, _ => none) (some [])

theorem lex_eq (s : Str) : lex s = lexLines (splitLines s) := rfl

theorem lexLines_cons (l : Str) (rest : List Str) :
    lexLines (l :: rest) = (match lexLine (l.length + 1) l, lexLines rest with
      | some a, some b => some (a ++ b)
      | _, _ => none) := rfl

theorem splitLines_exists (s : Str) : ∃ l rest, splitLines s = l :: rest := by
  induction s with
  | nil => exact ⟨[], [], rfl⟩
  | cons c r ih =>
    obtain ⟨l, rest, h⟩ := ih
    by_cases hc : isLineBreak c = true
    · exact ⟨[], splitLines r, by simp [splitLines, hc]⟩
    · exact ⟨c :: l, rest, by simp [splitLines, hc, h]⟩

theorem splitLines_cons_noLB (c : Char) {s l : Str} {rest : List Str} (hc : isLineBreak c = false)
    (hs : splitLines s = l :: rest) : splitLines (c :: s) = (c :: l) :: rest := by
  simp [splitLines, hc, hs]

theorem splitLines_append_noLB : ∀ (a : Str) {s l : Str} {rest : List Str},
    (∀ c ∈ a, isLineBreak c = false) → splitLines s = l :: rest → splitLines (a ++ s) = (a ++ l) :: rest
  | [], _, _, _, _, hs => hs
  | c :: a, _, _, _, ha, hs => by
    have ih := splitLines_append_noLB a (fun x hx => ha x (by simp [hx])) hs
    exact splitLines_cons_noLB c (ha c (by simp)) ih

theorem splitLines_nl (s : Str) : splitLines ('\n' :: s) = [] :: splitLines s := by
  have : isLineBreak '\n' = true := by decide
  simp [splitLines, this]

theorem splitLines_append_nl (a b : Str) :
    splitLines (a ++ '\n' :: b) = splitLines a ++ splitLines b := by
  induction a with
  | nil => simp [splitLines_nl, splitLines]
  | cons c r ih =>
    obtain ⟨l, rest, h⟩ := splitLines_exists r
    by_cases hc : isLineBreak c = true
    · simp [splitLines, hc, ih]
    · simp [splitLines, hc, ih, h]

theorem lexLines_append (A B : List Str) :
    lexLines (A ++ B) = (match lexLines A, lexLines B with
      | some x, some y => some (x ++ y)
      | _, _ => none) := by
  induction A with
  | nil => cases h : lexLines B <;> simp [lexLines] at h ⊢ <;> simp [h]
  | cons l A ih =>
    rw [List.cons_append, lexLines_cons, lexLines_cons, ih]
    cases lexLine (l.length + 1) l <;> cases lexLines A <;> cases lexLines B <;> simp

/-- texts separated by a line feed are read one after the other. -/
theorem lex_concat (a b : Str) :
    lex (a ++ '\n' :: b) = (match lex a, lex b with
      | some x, some y => some (x ++ y)
      | _, _ => none) := by
  rw [lex_eq, lex_eq, lex_eq, splitLines_append_nl, lexLines_append]

/-- a line that the lexer reads as `ts` (with any sufficient fuel). -/
def LR (l : Str) (ts : List T) : Prop := ∀ fuel, l.length < fuel → lexLine fuel l = some ts

/-- a text that the lexer reads as `ts`: first line, remaining lines. -/
def TR (s : Str) (ts : List T) : Prop :=
  ∃ l rest a b, splitLines s = l :: rest ∧ LR l a ∧ lexLines rest = some b ∧ ts = a ++ b

theorem lex_of_TR {s : Str} {ts : List T} (h : TR s ts) : lex s = some ts := by
  obtain ⟨l, rest, a, b, hs, hl, hr, rfl⟩ := h
  rw [lex_eq, hs, lexLines_cons, hl _ (Nat.lt_succ_self _), hr]

theorem TR_nil : TR [] [] := ⟨[], [], [], [], rfl, fun f _ => lexLine_nil f, rfl, rfl⟩

theorem TR_blank {s : Str} {ts : List T} (h : TR s ts) : TR (' ' :: s) ts := by
  obtain ⟨l, rest, a, b, hs, hl, hr, e⟩ := h
  refine ⟨' ' :: l, rest, a, b, splitLines_cons_noLB ' ' (by decide) hs, ?_, hr, e⟩
  intro fuel hf
  cases fuel with
  | zero => cases hf
  | succ f =>
    simp only [lexLine, step_blank]
    exact hl f (by simp at hf; omega)

theorem TR_nl {s : Str} {ts : List T} (h : TR s ts) : TR ('\n' :: s) ts := by
  obtain ⟨l, rest, a, b, hs, hl, hr, e⟩ := h
  refine ⟨[], l :: rest, [], a ++ b, ?_, fun f _ => lexLine_nil f, ?_, by simpa using e⟩
  · rw [splitLines_nl, hs]
  · rw [lexLines_cons, hl _ (Nat.lt_succ_self _), hr]

/-- what may follow a token group in the text: end, a blank, a line feed. -/
def SepStart (s : Str) : Prop := s = [] ∨ (∃ r, s = ' ' :: r) ∨ (∃ r, s = '\n' :: r)

def NX (t : T) (s : Str) : Prop :=
  SepStart s ∨ ((t.kind = K.dq ∨ t.kind = K.pred ∨ t.kind = K.symbol) ∧ Glued s)

theorem nextOK_line {t : T} {s l : Str} {rest : List Str} (hs : splitLines s = l :: rest) (h : NX t s) :
    NextOK t l := by
  rcases h with (rfl | ⟨r, rfl⟩ | ⟨r, rfl⟩) | ⟨hk, lk, r, hl, rfl⟩
  · simp [splitLines] at hs
    exact Or.inl hs.1
  · obtain ⟨l', rest', h'⟩ := splitLines_exists r
    rw [splitLines_cons_noLB ' ' (by decide) h'] at hs
    simp at hs
    exact Or.inr (Or.inl ⟨l', hs.1.symm⟩)
  · rw [splitLines_nl] at hs
    simp at hs
    exact Or.inl hs.1
  · obtain ⟨l', rest', h'⟩ := splitLines_exists r
    have h1 := splitLines_cons_noLB ' ' (by decide) h'
    have h2 := splitLines_append_noLB lk.str (tokText_noLB (tk .lnk lk.str) (tokOK_lnk hl)) h1
    rw [h2] at hs
    simp at hs
    exact Or.inr (Or.inr ⟨hk, lk, l', hl, hs.1.symm⟩)

theorem TR_tok {t : T} {s : Str} {ts : List T} (ht : TokOK t) (hn : NX t s) (h : TR s ts) :
    TR (tokText t ++ s) (t :: ts) := by
  obtain ⟨l, rest, a, b, hs, hl, hr, e⟩ := h
  have hnl := nextOK_line hs hn
  obtain ⟨c, r, htt, hst⟩ := step_tok t l ht hnl
  refine ⟨tokText t ++ l, rest, t :: a, b, splitLines_append_noLB _ (tokText_noLB t ht) hs, ?_, hr,
    by simp [e]⟩
  intro fuel hf
  rw [htt] at hf ⊢
  cases fuel with
  | zero => cases hf
  | succ f =>
    have := hl f (by simp at hf; omega)
    simp [lexLine, hst, this]

/-! ### token groups -/

/-- placement inside a group: an alignment token that does not follow an opening bracket is glued to
a string / predicate / symbol and is not the last token of the group. -/
def Pl : List T → Prop
  | [] => True
  | [_] => True
  | t :: u :: r => (u.kind = K.lnk → t.kind ≠ K.lbrack →
      ((t.kind = K.dq ∨ t.kind = K.pred ∨ t.kind = K.symbol) ∧ r ≠ [])) ∧ Pl (u :: r)

theorem TR_render : ∀ (ts : List T), AllOK ts → Pl ts → ∀ s us, TR s us → SepStart s →
    TR (render ts ++ s) (ts ++ us)
  | [], _, _, s, us, h, _ => by simpa [render] using h
  | [t], hok, _, s, us, h, hs => by
    have := TR_tok (hok t (by simp)) (Or.inl hs) h
    simpa [render] using this
  | t :: u :: rs, hok, hp, s, us, h, hs => by
    have ih := TR_render (u :: rs) (fun x hx => hok x (by simp [hx])) hp.2 s us h hs
    by_cases hg : u.kind = K.lnk ∧ t.kind ≠ K.lbrack
    · obtain ⟨hkind, hne⟩ := hp.1 hg.1 hg.2
      have hr : render (t :: u :: rs) = tokText t ++ render (u :: rs) := by
        simp only [render]; exact if_pos hg
      have hgl : Glued (render (u :: rs) ++ s) := by
        cases rs with
        | nil => exact absurd rfl hne
        | cons v rs' =>
          have hu := hok u (by simp)
          simp only [TokOK, hg.1] at hu
          obtain ⟨l, hl, htx⟩ := hu
          have htt : tokText u = l.str := by simp [tokText, hg.1, htx]
          have hv : ¬ (v.kind = K.lnk ∧ u.kind ≠ K.lbrack) := by
            intro ⟨h1, h2⟩
            have := (hp.2.1 h1 h2).1
            rw [hg.1] at this; simp at this
          refine ⟨l, render (v :: rs') ++ s, hl, ?_⟩
          simp [render, hv, htt]
      have := TR_tok (hok t (by simp)) (Or.inr ⟨hkind, hgl⟩) ih
      rw [hr]; simpa using this
    · have hr : render (t :: u :: rs) = tokText t ++ (' ' :: render (u :: rs)) := by
        simp only [render]; exact if_neg hg
      have := TR_tok (hok t (by simp)) (Or.inl (Or.inr (Or.inl ⟨_, rfl⟩))) (TR_blank ih)
      rw [hr]; simpa using this

def Blk (sep : Str) : Prop := ∀ c ∈ sep, c = ' ' ∨ c = '\n'

theorem TR_blk : ∀ (sep : Str), Blk sep → ∀ {s : Str} {us : List T}, TR s us → TR (sep ++ s) us
  | [], _, _, _, h => h
  | c :: r, hb, s, us, h => by
    have ih := TR_blk r (fun x hx => hb x (by simp [hx])) h
    rcases hb c (by simp) with rfl | rfl
    · exact TR_blank ih
    · exact TR_nl ih

theorem sepStart_blk {sep : Str} (hne : sep ≠ []) (hb : Blk sep) (s : Str) : SepStart (sep ++ s) := by
  cases sep with
  | nil => exact absurd rfl hne
  | cons c r =>
    rcases hb c (by simp) with rfl | rfl
    · exact Or.inr (Or.inl ⟨_, rfl⟩)
    · exact Or.inr (Or.inr ⟨_, rfl⟩)

/-- a piece of text `p` that reads as the tokens `q` in front of any readable continuation that
starts with a separator (or is empty). -/
def Part (p : Str) (q : List T) : Prop := ∀ s us, TR s us → SepStart s → TR (p ++ s) (q ++ us)

theorem Part_nil : Part [] [] := fun _ _ h _ => h

theorem Part_render {ts : List T} (h1 : AllOK ts) (h2 : Pl ts) : Part (render ts) ts :=
  TR_render ts h1 h2

theorem Part_sep {p p' sep : Str} {q q' : List T} (hp : Part p q) (hne : sep ≠ []) (hb : Blk sep)
    (hp' : Part p' q') : Part (p ++ sep ++ p') (q ++ q') := by
  intro s us h hs
  have := hp _ _ (TR_blk sep hb (hp' s us h hs)) (sepStart_blk hne hb _)
  simpa [List.append_assoc] using this

theorem Part_join (sep : Str) (hne : sep ≠ []) (hb : Blk sep) : ∀ L : List (Str × List T),
    (∀ pq ∈ L, Part pq.1 pq.2) → Part (joinStr sep (L.map (·.1))) ((L.map (·.2)).flatten)
  | [], _ => Part_nil
  | [pq], h => by simpa [joinStr] using h pq (by simp)
  | pq :: pq' :: r, h => by
    have ih := Part_join sep hne hb (pq' :: r) (fun x hx => h x (by simp [hx]))
    have := Part_sep (h pq (by simp)) hne hb ih
    simpa [joinStr, List.append_assoc] using this

/-! ### the token groups of `renderInd` -/

theorem relGroups_cons (o : Opts) (vp : Dict Props) (ep : EP) (rest : List EP) :
    relGroups o vp (ep :: rest) =
      ((encRel o vp ep).1 :: (relGroups o (encRel o vp ep).2 rest).1,
       (relGroups o (encRel o vp ep).2 rest).2) := rfl

/-- the groups are the pieces `encRels` concatenates, with the same threaded `varprops`. -/
theorem relGroups_eq (o : Opts) : ∀ (eps : List EP) (vp : Dict Props),
    (relGroups o vp eps).1.flatten = (encRels o vp eps).1 ∧ (relGroups o vp eps).2 = (encRels o vp eps).2 := by
  intro eps
  induction eps with
  | nil => intro vp; exact ⟨rfl, rfl⟩
  | cons e rest ih =>
    intro vp
    rw [relGroups_cons, SimpleL.encRels_cons]
    have := ih (encRel o vp e).2
    simp [this.1, this.2]

theorem placed_pl : ∀ (l : List T) (p : K), Placed p l → Pl l
  | [], _, _ => trivial
  | [_], _, _ => trivial
  | t :: u :: r, _, h => by
    refine ⟨?_, placed_pl (u :: r) t.kind h.2⟩
    intro hu ht
    have h1 : okPrev t.kind := h.2.1 hu
    refine ⟨?_, ?_⟩
    · rcases h1 with h1 | h1
      · exact absurd h1 ht
      · exact h1
    · intro e
      subst e
      exact h.2.2 hu

theorem pl_noLnk {l : List T} (h : NoLnk l) : Pl l :=
  placed_pl l K.lbrack (seg_of_noLnk l h K.lbrack (by simp))

theorem pl_seg2 {l : List T} (h : Seg2 l) : Pl l := placed_pl l K.lbrack (h K.lbrack)

theorem relGroups_ok (o : Opts) : ∀ (eps : List EP) (vp : Dict Props), VP vp → (∀ e ∈ eps, EPOK e) →
    ∀ g ∈ (relGroups o vp eps).1, AllOK g ∧ Pl g ∧ g ≠ [] := by
  intro eps
  induction eps with
  | nil => intro vp _ _ g hg; simp [relGroups] at hg
  | cons e rest ih =>
    intro vp hvp hes g hg
    rw [relGroups_cons] at hg
    have h1 := encRel_ok o hvp (hes e (List.mem_cons_self ..))
    rcases List.mem_cons.mp hg with rfl | hg
    · obtain ⟨X, hX⟩ := SimpleL.encRel_head o vp e
      exact ⟨h1.1, pl_seg2 h1.2.1, by rw [hX]; simp⟩
    · exact ih _ h1.2.2 (fun e' h => hes e' (List.mem_cons_of_mem _ h)) g hg

theorem OKN_section (name : String) (hn : Atom (S name)) {ts : List T} (h : OKN ts) :
    OKN (section_ name ts) := by
  unfold section_
  split
  · exact OKN_nil
  · exact OKN_tF hn (OKN_cons tokOK_tLA (by simp [tLA, tk])
      (OKN_append h (OKN_cons tokOK_tRA (by simp [tRA, tk]) OKN_nil)))

theorem Part_OKN {ts : List T} (h : OKN ts) : Part (render ts) ts :=
  Part_render h.allOK (pl_noLnk h.noLnk)

theorem render_ne_nil (t : T) (r : List T) (ht : TokOK t) : render (t :: r) ≠ [] := by
  obtain ⟨c, x, htt, _⟩ := step_tok t [] ht (Or.inl rfl)
  cases r with
  | nil => simp [render, htt]
  | cons u r => simp only [render]; split <;> simp [htt]

theorem render_isEmpty {ts : List T} (hok : AllOK ts) (h : (render ts).isEmpty = true) : ts = [] := by
  cases ts with
  | nil => rfl
  | cons t r =>
    have := render_ne_nil t r (hok t (by simp))
    simp at h
    exact absurd h this

/-- the RELS part of the indented layout. -/
def relsPart (groups : List (List T)) : Str :=
  if groups.isEmpty then [] else "RELS: < ".toList ++ joinStr relsSep (groups.map render) ++ " >".toList

theorem relsSep_blk : Blk relsSep := by
  intro c hc
  simp only [relsSep, List.mem_cons, List.mem_replicate] at hc
  rcases hc with rfl | ⟨_, rfl⟩
  · exact Or.inr rfl
  · exact Or.inl rfl

theorem partSep_blk : Blk partSep := by
  intro c hc
  simp only [partSep, List.mem_cons, List.not_mem_nil, or_false] at hc
  rcases hc with rfl | rfl | rfl
  · exact Or.inr rfl
  · exact Or.inl rfl
  · exact Or.inl rfl

theorem blank_blk : Blk [' '] := by
  intro c hc; simp at hc; exact Or.inl hc

theorem Part_rels (groups : List (List T)) (hg : ∀ g ∈ groups, AllOK g ∧ Pl g ∧ g ≠ []) :
    Part (relsPart groups) (section_ "RELS" groups.flatten) := by
  cases groups with
  | nil => simpa [relsPart, section_] using Part_nil
  | cons g gs =>
    have hne : g ≠ [] := (hg g (by simp)).2.2
    have hfl : ((g :: gs).flatten).isEmpty = false := by
      cases g with
      | nil => exact absurd rfl hne
      | cons t r => simp
    have hJ := Part_join relsSep (by simp [relsSep]) relsSep_blk ((g :: gs).map (fun g => (render g, g)))
      (by
        intro pq hpq
        obtain ⟨g', hg', rfl⟩ := List.mem_map.mp hpq
        exact Part_render (hg g' hg').1 (hg g' hg').2.1)
    have e0 : ((g :: gs).map (fun g => (render g, g))).map (·.1) = (g :: gs).map render := by
      simp [List.map_map, Function.comp_def]
    have e0' : ((g :: gs).map (fun g => (render g, g))).map (·.2) = (g :: gs) := by
      simp [List.map_map, Function.comp_def]
    rw [e0, e0'] at hJ
    have e1 : "RELS: < ".toList = render [tF (S "RELS"), tLA] ++ [' '] := by decide
    have e2 : " >".toList = [' '] ++ render [tRA] := by decide
    have ok1 : OKN [tF (S "RELS"), tLA] :=
      OKN_tF atom_RELS (OKN_cons tokOK_tLA (by simp [tLA, tk]) OKN_nil)
    have ok2 : OKN [tRA] := OKN_cons tokOK_tRA (by simp [tRA, tk]) OKN_nil
    have := Part_sep (Part_sep (Part_OKN ok1) (by simp) blank_blk hJ) (by simp) blank_blk (Part_OKN ok2)
    have hs : section_ "RELS" (g :: gs).flatten = [tF (S "RELS"), tLA] ++ (g :: gs).flatten ++ [tRA] := by
      unfold section_; rw [hfl]; simp
    have hp : relsPart (g :: gs) =
        render [tF (S "RELS"), tLA] ++ [' '] ++ joinStr relsSep ((g :: gs).map render) ++ [' '] ++ render [tRA] := by
      unfold relsPart; rw [e1, e2]; simp
    rw [hs, hp]
    exact this

theorem relsPart_isEmpty {groups : List (List T)} (h : (relsPart groups).isEmpty = true) : groups = [] := by
  cases groups with
  | nil => rfl
  | cons g gs =>
    have e1 : "RELS: < ".toList = 'R' :: "ELS: < ".toList := by decide
    simp [relsPart, e1] at h

theorem filter_flatten : ∀ L : List (Str × List T), (∀ pq ∈ L, pq.1.isEmpty = true → pq.2 = []) →
    ((L.filter (fun pq => !pq.1.isEmpty)).map (·.2)).flatten = (L.map (·.2)).flatten
  | [], _ => rfl
  | pq :: r, h => by
    have ih := filter_flatten r (fun x hx => h x (by simp [hx]))
    by_cases he : pq.1.isEmpty = true
    · have := h pq (by simp) he
      simp [he, this, ih]
    · simp [he, ih]

/-- the frame `"[ " ++ "\n  ".join(non-empty parts) ++ " ]"` around parts that read as token groups. -/
theorem frame (L : List (Str × List T))
    (hL : ∀ pq ∈ L, Part pq.1 pq.2 ∧ (pq.1.isEmpty = true → pq.2 = [])) :
    lex ('[' :: ' ' :: joinStr partSep ((L.map (·.1)).filter (fun p => !p.isEmpty)) ++ [' ', ']'])
      = some (tLB :: (L.map (·.2)).flatten ++ [tRB]) := by
  have e : (L.map (·.1)).filter (fun p => !p.isEmpty)
      = (L.filter (fun pq => !pq.1.isEmpty)).map (·.1) := by
    rw [List.filter_map]; rfl
  rw [e, ← filter_flatten L (fun pq h => (hL pq h).2)]
  have hJ := Part_join partSep (by simp [partSep]) partSep_blk (L.filter (fun pq => !pq.1.isEmpty))
    (fun pq h => (hL pq (List.mem_filter.mp h).1).1)
  have h0 : TR [' ', ']'] [tRB] := by
    have := TR_tok (t := tRB) tokOK_tRB (Or.inl (Or.inl rfl)) TR_nil
    exact TR_blank (by simpa [tokText, tRB, tk] using this)
  have h1 := TR_blank (hJ _ _ h0 (Or.inr (Or.inl ⟨_, rfl⟩)))
  have h2 := TR_tok (t := tLB) tokOK_tLB (Or.inl (Or.inr (Or.inl ⟨_, rfl⟩))) h1
  exact lex_of_TR (by simpa [tokText, tLB, tk] using h2)

theorem surf_ok (o : Opts) (m : MRS) (h : LexExprS m) :
    AllOK (SimpleL.surfT o m) ∧ Pl (SimpleL.surfT o m) := by
  obtain ⟨l', s', e, hl, hs⟩ := top_surf_cases o.lnk m.lnk m.surface h.lnk
  have hs' : ∀ x, s' = some x → NoBreak x := by
    rcases hs with rfl | rfl
    · intro x hx; cases hx
    · exact h.surf
  unfold SimpleL.surfT
  rw [e]
  refine ⟨AllOK_append (allOK_lnkToks hl) (OKN_optDQ hs').allOK, ?_⟩
  rcases lnkToks_cases l' with e1 | e1 <;> rw [e1] <;> cases s' <;> simp [Pl, optDQ, tDQ, tk]

end Verif.C01.LayL

namespace Verif.C01.Lex
open Verif.Codec Verif.Tables Verif.C01 Verif.C01.LexL Verif.C01.LexT Verif.C01.LayL

/-- the parts of the indented layout, as the non-empty ones of six texts. -/
theorem partsInd_eq (o : Opts) (m : MRS) :
    partsInd o m =
      ([render (SimpleL.surfT o m), render (SimpleL.topT m.top),
        render (SimpleL.ixT (SimpleL.vp0 o m) m.index),
        relsPart (relGroups o (SimpleL.ixVp (SimpleL.vp0 o m) m.index) m.rels).1,
        render (section_ "HCONS" (encHcons m.hcons)),
        render (section_ "ICONS"
          (encIcons (relGroups o (SimpleL.ixVp (SimpleL.vp0 o m) m.index) m.rels).2 m.icons).1)]).filter
        (fun p => !p.isEmpty) := rfl

/-- the model of the regex lexer reads the indented text back as the token list of the encoder. -/
theorem lex_renderInd (o : Opts) (m : MRS) (h : LexExprS m) :
    lex (renderInd o m) = some (toks o m) := by
  have hvp0 : VP (SimpleL.vp0 o m) := by
    unfold SimpleL.vp0
    split
    · exact fun p hp => ⟨h.props p hp, h.sorts p hp⟩
    · exact VP_nil
  have hix := ix_ok (ix := m.index) hvp0 h.index
  have hep : ∀ e ∈ m.rels, EPOK e := fun e he =>
    ⟨h.preds e he, h.labels e he, fun a ha => ⟨h.roles e he a ha, h.vals e he a ha⟩,
     h.eplnk e he, h.epsurf e he⟩
  have hrels := encRels_ok o m.rels _ hix.2 hep
  have hgr := relGroups_ok o m.rels _ hix.2 hep
  obtain ⟨hge1, hge2⟩ := relGroups_eq o m.rels (SimpleL.ixVp (SimpleL.vp0 o m) m.index)
  have hic := encIcons_ok m.icons _ hrels.2.2 h.icons
  have hhc : OKN (encHcons m.hcons) := encHcons_ok h.hcons
  have htop : OKN (SimpleL.topT m.top) := topT_ok h.top
  have hsurf := surf_ok o m h
  have hsH := OKN_section "HCONS" atom_HCONS hhc
  have hsI := OKN_section "ICONS" atom_ICONS hic.1
  have key := frame
    [(render (SimpleL.surfT o m), SimpleL.surfT o m),
     (render (SimpleL.topT m.top), SimpleL.topT m.top),
     (render (SimpleL.ixT (SimpleL.vp0 o m) m.index), SimpleL.ixT (SimpleL.vp0 o m) m.index),
     (relsPart (relGroups o (SimpleL.ixVp (SimpleL.vp0 o m) m.index) m.rels).1,
      section_ "RELS" (relGroups o (SimpleL.ixVp (SimpleL.vp0 o m) m.index) m.rels).1.flatten),
     (render (section_ "HCONS" (encHcons m.hcons)), section_ "HCONS" (encHcons m.hcons)),
     (render (section_ "ICONS"
        (encIcons (relGroups o (SimpleL.ixVp (SimpleL.vp0 o m) m.index) m.rels).2 m.icons).1),
      section_ "ICONS"
        (encIcons (relGroups o (SimpleL.ixVp (SimpleL.vp0 o m) m.index) m.rels).2 m.icons).1)]
    (by
      intro pq hpq
      simp only [List.mem_cons, List.not_mem_nil, or_false] at hpq
      rcases hpq with rfl | rfl | rfl | rfl | rfl | rfl
      · exact ⟨Part_render hsurf.1 hsurf.2, render_isEmpty hsurf.1⟩
      · exact ⟨Part_OKN htop, render_isEmpty htop.allOK⟩
      · exact ⟨Part_OKN hix.1, render_isEmpty hix.1.allOK⟩
      · refine ⟨Part_rels _ hgr, ?_⟩
        intro he
        rw [relsPart_isEmpty he]
        rfl
      · exact ⟨Part_OKN hsH, render_isEmpty hsH.allOK⟩
      · rw [hge2]
        exact ⟨Part_OKN hsI, render_isEmpty hsI.allOK⟩)
  have e1 : renderInd o m = '[' :: ' ' :: joinStr partSep (partsInd o m) ++ [' ', ']'] := rfl
  rw [e1, partsInd_eq, SimpleL.toks_eq, ← hge1, ← hge2]
  simp only [List.map_cons, List.map_nil] at key
  rw [key]
  simp [List.flatten, List.append_assoc]

end Verif.C01.Lex
