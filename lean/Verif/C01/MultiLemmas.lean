/-
C01 — multi-item documents as corollaries of the remainder-carrying round trips:
SimpleMRS at text level (indented layout, one item per line), Indexed MRS at token level.
-/
import Verif.C01.IxPropsLemmas
import Verif.C01.LayoutLemmas
import Verif.C01.SimpleLemmas

namespace Verif.C01.Lex
open Verif.Codec Verif.Tables Verif.C01

theorem lex_nil : lex [] = some [] := by decide

theorem joinStr_nl_cons (a : Str) (b : Str) (r : List Str) :
    joinStr ['\n'] (a :: b :: r) = a ++ '\n' :: joinStr ['\n'] (b :: r) := by
  simp [joinStr]

/-- the lexer reads a document of indented items (one after the other, separated by line feeds)
back as the concatenation of their token lists. -/
theorem lex_renderIndMany (o : Opts) (ms : List MRS) (h : ∀ m ∈ ms, LexExprS m) :
    lex (renderIndMany o ms) = some (toksMany o ms) := by
  induction ms with
  | nil => exact lex_nil
  | cons m ms ih =>
    have hm := lex_renderInd o m (h m (by simp))
    cases ms with
    | nil =>
      simp only [renderIndMany, List.map, joinStr, toksMany, List.flatMap_cons, List.flatMap_nil,
        List.append_nil]
      exact hm
    | cons m2 rest =>
      have ih' := ih (fun x hx => h x (by simp [hx]))
      unfold renderIndMany at ih' ⊢
      simp only [List.map] at ih' ⊢
      rw [joinStr_nl_cons, LayL.lex_concat, hm, ih']
      simp [toksMany]

/-- "This holds for single items and multi-item documents" (SimpleMRS, text level): lexing a
document of several indented items and running the list decoder gives the list of decoded
structures. -/
theorem text_roundtrip_many (o : Opts) (ms : List MRS) (hl : ∀ m ∈ ms, LexExprS m) (he : ∀ m ∈ ms, ExprS m) :
    (lex (renderIndMany o ms)).map (parseMany (ms.length + 1)) = some (.ok (ms.map (decodedS o))) := by
  rw [lex_renderIndMany o ms hl]
  simp [parseMany_toksMany o ms he (ms.length + 1) (Nat.le_refl _)]

end Verif.C01.Lex

namespace Verif.C01.Ix
open Verif.Codec Verif.Tables Verif.C01

/-- `d` is what Indexed MRS gives back for `m`. -/
def DecodedAs (semi : SemI) (o : Opts) (m d : MRS) : Prop :=
  d.top = m.top ∧ d.index = m.index ∧ d.rels = m.rels.map (epViewI semi o) ∧ d.hcons = m.hcons ∧ d.icons = m.icons
  ∧ d.lnk = .unspec ∧ d.surface = none ∧ d.ident = none
  ∧ ∀ v, v ∈ fillOrder m.top m.index (m.rels.map (epViewI semi o)) m.hcons m.icons →
      dget d.vars v = some (propsViewI semi o m v)

/-- the hypotheses of the single-item round trip for `m` with token list `ts`. -/
def OkItem (semi : SemI) (o : Opts) (m : MRS) (ts : List TI) : Prop :=
  m.top.isSome = true ∧ (∀ e ∈ m.rels, CoverEP semi e) ∧ propsCover semi m = true
  ∧ (m.vars.map (·.1)).Nodup ∧ toksIx semi o m = .ok ts

/-- pointwise relation of two lists of the same length. -/
inductive All2 {α β} (R : α → β → Prop) : List α → List β → Prop where
  | nil : All2 R [] []
  | cons {a b as bs} : R a b → All2 R as bs → All2 R (a :: as) (b :: bs)

theorem parseIx_nil (semi : SemI) : parseIx semi [] = .error .eof := rfl

/-- "multi-item documents" (Indexed MRS, token level): the list decoder run on the token lists of
several items in a row gives one structure per item, each decoded as its item. -/
theorem parseManyIx_toksIx (semi : SemI) (o : Opts) (items : List (MRS × List TI))
    (h : ∀ p ∈ items, OkItem semi o p.1 p.2) (fuel : Nat) (hf : items.length + 1 ≤ fuel) :
    ∃ ds, parseManyIx semi fuel (items.flatMap (·.2)) = .ok ds
      ∧ All2 (DecodedAs semi o) (items.map (·.1)) ds := by
  induction items generalizing fuel with
  | nil =>
    refine ⟨[], ?_, All2.nil⟩
    cases fuel with
    | zero => rfl
    | succ n => rfl
  | cons p ps ih =>
    obtain ⟨m, ts⟩ := p
    obtain ⟨htop, hc, hp, hn, ht⟩ := h (m, ts) (by simp)
    obtain ⟨f, rfl⟩ : ∃ f, fuel = f + 1 := ⟨fuel - 1, by simp at hf; omega⟩
    obtain ⟨ds, hds, hall⟩ := ih (fun q hq => h q (by simp [hq])) f (by simp at hf ⊢; omega)
    obtain ⟨d, hd, hrest⟩ := parseIx_toksIx semi o m ts (ps.flatMap (·.2)) htop hc hp hn ht
    refine ⟨d :: ds, ?_, All2.cons hrest hall⟩
    simp only [List.flatMap_cons]
    cases hL : ts ++ ps.flatMap (·.2) with
    | nil => rw [hL, parseIx_nil] at hd; cases hd
    | cons t r =>
      rw [hL] at hd
      simp only [parseManyIx, hd, hds]

end Verif.C01.Ix
