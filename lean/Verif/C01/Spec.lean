/-
C01 — specification-side definitions used by the theorems: what "expressible" means at the token /
dictionary / tree level, the views ("the original with exactly that information removed"), and the
encoder-side list of variable mentions.
-/
import Verif.C01.Model

namespace Verif.C01
open Verif.Codec Verif.Tables

/-- An EP whose atoms are already in the form decoding normalises to (quantifier of C01:
normalised predicate symbol, lower-case variables, upper-case role names, distinct roles). -/
structure ExprEP (e : EP) : Prop where
  pred : normalizePred e.pred = e.pred
  label : lower e.label = e.label
  roles : ∀ a ∈ e.args, upper a.1 = a.1
  rolesNodup : (e.args.map (·.1)).Nodup
  vals : ∀ a ∈ e.args, a.1 ≠ CARG → lower a.2 = a.2

/-- Expressible at the token level (SimpleMRS) — no lexical conditions: those concern the regex
lexer, which is tied by correspondence only. -/
structure ExprS (m : MRS) : Prop where
  top : ∀ t, m.top = some t → lower t = t
  index : ∀ i, m.index = some i → lower i = i
  rels : ∀ e ∈ m.rels, ExprEP e
  hcons : ∀ c ∈ m.hcons, lower c.lhs = c.lhs ∧ lower c.rel = c.rel ∧ lower c.rhs = c.rhs
  icons : ∀ c ∈ m.icons, lower c.lhs = c.lhs ∧ lower c.rel = c.rel ∧ lower c.rhs = c.rhs
  props : ∀ vp ∈ m.vars, ∀ kv ∈ vp.2, upper kv.1 = kv.1 ∧ lower kv.2 = kv.2
  propsNodup : ∀ vp ∈ m.vars, (vp.2.map (·.1)).Nodup

/-- what `_encode_variable` does to `varprops` at one variable position, as a decoder-side mention. -/
def mentVar (vp : Dict Props) (v : Str) : Mention × Dict Props :=
  match dget vp v with
  | none => ((v, []), vp)
  | some ps => if ps.isEmpty then ((v, []), vp) else ((v, sortProps ps), ddel vp v)

def mentVars : Dict Props → List Str → List Mention × Dict Props
  | vp, [] => ([], vp)
  | vp, v :: vs =>
    let (m, vp1) := mentVar vp v
    let (ms, vp') := mentVars vp1 vs
    (m :: ms, vp')

/-- the variable positions of an EP in the encoder's order (roles by `role_priority`, CARG skipped). -/
def epVarPos (e : EP) : List Str := ((sortArgs e.args).filter (fun a => a.1 ≠ CARG)).map (·.2)

/-- the `_decode_variable` calls the SimpleMRS decoder makes on `toks o m`, in order:
INDEX, the arguments of RELS, HCONS (never with a property block), ICONS.  Property blocks appear
exactly at the first variable-position mention of a variable that has properties (first-mention rule). -/
def mentions (o : Opts) (m : MRS) : List Mention :=
  let vp0 : Dict Props := if o.properties then m.vars else []
  let (mi, vp1) := mentVars vp0 m.index.toList
  let (mr, vp2) := mentVars vp1 (m.rels.flatMap epVarPos)
  let (mc, _) := mentVars vp2 (m.icons.flatMap (fun c => [c.lhs, c.rhs]))
  mi ++ mr ++ m.hcons.flatMap (fun c => [((c.lhs, []) : Mention), (c.rhs, [])]) ++ mc

/-- an EP as SimpleMRS gives it back: arguments in `role_priority` order; alignment and surface
string only when `lnk` is on; SimpleMRS does not carry `base`. -/
def epViewS (o : Opts) (e : EP) : EP :=
  { e with args := sortArgs e.args, lnk := if o.lnk then e.lnk else .unspec,
           surface := if o.lnk then e.surface else none, base := none }

/-- the MRS object `simplemrs.decode(simplemrs.encode(m, properties, lnk))` (claimed by `parse_toks`). -/
def decodedS (o : Opts) (m : MRS) : MRS :=
  mkMRS m.top m.index (m.rels.map (epViewS o)) m.hcons m.icons (varsOfMentions (mentions o m))
    (if o.lnk ∧ m.lnk.truthy then m.lnk else .unspec) (if o.lnk then m.surface else none) none

/-- every variable `_fill_variables` would visit is already a key (true of every constructed MRS). -/
def Filled (m : MRS) : Prop :=
  ∀ v ∈ fillOrder m.top m.index m.rels m.hcons m.icons, dhas m.vars v = true

/-- an EP as MRS-JSON gives it back. -/
def epViewJ (o : Opts) (e : EP) : EP :=
  if o.lnk then { e with lnk := if e.lnk.truthy then .charspan e.lnk.cfrom e.lnk.cto else .unspec }
  else { e with lnk := .unspec, surface := none, base := none }

/-- the MRS object `mrsjson.from_dict(mrsjson.to_dict(m, properties, lnk))`: MRS-JSON does not carry
structure-level lnk/surface/identifier; alignments are carried as (from, to). -/
def viewJ (o : Opts) (m : MRS) : MRS :=
  { m with rels := m.rels.map (epViewJ o),
           vars := if o.properties then m.vars else m.vars.map (fun vp => (vp.1, ([] : Props))),
           lnk := .unspec, surface := none, ident := none }

/-- the concatenated property blocks of the mentions of `v`. -/
def blocksOf (v : Str) (ms : List Mention) : List (Str × Str) := (ms.filter (fun m => m.1 = v)).flatMap (·.2)

def setAll (d : Props) (ps : List (Str × Str)) : Props := ps.foldl (fun d p => dset d p.1 p.2) d

end Verif.C01

/-! ## MRX (round 2) -/
namespace Verif.C01
open Verif.Codec Verif.Tables

/-- an EP as MRX gives it back: arguments in `role_priority` order; alignment as (cfrom, cto);
alignment, surface and base only when `lnk` is on. -/
def epViewX (o : Opts) (e : EP) : EP :=
  { e with args := sortArgs e.args, lnk := if o.lnk then .charspan e.lnk.cfrom e.lnk.cto else .unspec,
           surface := if o.lnk then e.surface else none, base := if o.lnk then e.base else none }

/-- the positions at which the MRX encoder writes a `var` element (and hence may write properties),
in its traversal order: index, arguments, the `hi` of handle constraints, individual constraints. -/
def varPositionsX (m : MRS) : List Str :=
  m.index.toList ++ m.rels.flatMap epVarPos ++ m.hcons.map (·.lhs) ++ m.icons.flatMap (fun c => [c.lhs, c.rhs])

def mentionsX (o : Opts) (m : MRS) : List Mention :=
  (mentVars (if o.properties then m.vars else []) (varPositionsX m)).1

/-- the MRS object `mrx.decode(mrx.encode(m, properties, lnk))` (claimed by `ofXml_toXml`). -/
def decodedX (o : Opts) (m : MRS) : MRS :=
  mkMRS m.top m.index (m.rels.map (epViewX o)) m.hcons m.icons (varsOfMentions (mentionsX o m))
    (if o.lnk then .charspan m.lnk.cfrom m.lnk.cto else .unspec) (if o.lnk then m.surface else none) m.ident

/-- Expressible in MRX at the tree level: label positions (top, EP labels, `lo` of hcons) have sort
`h` (MRX writes only their vid); variables lower-case; predicates unchanged by `_strip_predicate`;
upper-case distinct roles; upper-case property names with lower-case values. -/
structure ExprX (m : MRS) : Prop where
  top : ∀ t, m.top = some t → varSort t = ['h']
  index : ∀ i, m.index = some i → lower i = i
  labels : ∀ e ∈ m.rels, varSort e.label = ['h']
  preds : ∀ e ∈ m.rels, stripPred e.pred = e.pred
  roles : ∀ e ∈ m.rels, ∀ a ∈ e.args, upper a.1 = a.1
  rolesNodup : ∀ e ∈ m.rels, (e.args.map (·.1)).Nodup
  vals : ∀ e ∈ m.rels, ∀ a ∈ e.args, a.1 ≠ CARG → lower a.2 = a.2
  hcons : ∀ c ∈ m.hcons, lower c.lhs = c.lhs ∧ varSort c.rhs = ['h']
  icons : ∀ c ∈ m.icons, lower c.lhs = c.lhs ∧ lower c.rhs = c.rhs
  props : ∀ vp ∈ m.vars, ∀ kv ∈ vp.2, upper kv.1 = kv.1 ∧ lower kv.2 = kv.2

end Verif.C01
