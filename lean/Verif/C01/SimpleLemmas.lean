/-
C01 — SimpleMRS: the recursive-descent decoder run on the encoder's tokens (`parse_toks`).
-/
import Verif.Common.CodecLemmas
import Verif.C01.Spec

namespace Verif.C01.SimpleL
open Verif.Codec Verif.Tables

/-! ### basic token operations -/

theorem acc_eq (k : K) (t : T) (ts : List T) (h : t.kind = k) :
    acc k (t :: ts) = .ok (some t.text, ts) := by simp [acc, h]

theorem acc_ne (k : K) (t : T) (ts : List T) (h : t.kind ≠ k) :
    acc k (t :: ts) = .ok (none, t :: ts) := by simp [acc, h]

theorem exp_eq (k : K) (t : T) (ts : List T) (h : t.kind = k) :
    exp k (t :: ts) = .ok (t.text, ts) := by simp [exp, h]

/-! ### sorting -/

theorem insertBy_perm {α} (le : α → α → Bool) (x : α) (l : List α) :
    (insertBy le x l).Perm (x :: l) := by
  induction l with
  | nil => exact List.Perm.refl _
  | cons y ys ih =>
    unfold insertBy
    split
    · exact List.Perm.refl _
    · exact (List.Perm.cons y ih).trans (List.Perm.swap x y ys)

theorem sortBy_perm {α} (le : α → α → Bool) (l : List α) : (sortBy le l).Perm l := by
  induction l with
  | nil => exact List.Perm.refl _
  | cons x xs ih =>
    unfold sortBy
    exact (insertBy_perm le x _).trans (List.Perm.cons x ih)

theorem mem_sortProps {ps : Props} {kv : Str × Str} : kv ∈ sortProps ps ↔ kv ∈ ps :=
  (sortBy_perm _ ps).mem_iff

theorem mem_sortArgs {as : Dict Str} {a : Str × Str} : a ∈ sortArgs as ↔ a ∈ as :=
  (sortBy_perm _ as).mem_iff

theorem sortArgs_nodup {as : Dict Str} (h : (as.map (·.1)).Nodup) :
    ((sortArgs as).map (·.1)).Nodup :=
  ((sortBy_perm _ as).map _).nodup_iff.mpr h

/-! ### 1. property blocks -/

def PairsOK (ps : List (Str × Str)) : Prop := ∀ kv ∈ ps, upper kv.1 = kv.1 ∧ lower kv.2 = kv.2

theorem parseProps_list (r : List T) : ∀ (qs : List (Str × Str)), PairsOK qs →
    parseProps (qs.flatMap (fun kv => [tF kv.1, tS kv.2]) ++ tRB :: r) = .ok (qs, tRB :: r) := by
  intro qs
  induction qs with
  | nil => intro _; rw [parseProps.eq_def]; simp [tRB, tk]
  | cons q qs ih =>
    intro h
    have hq := h q (List.mem_cons_self)
    have ih' := ih (fun kv hkv => h kv (List.mem_cons_of_mem _ hkv))
    simp only [List.flatMap_cons, List.cons_append, List.nil_append]
    rw [parseProps]
    simp only [tF, tS, tk, if_true]
    simp only [tF, tS, tk] at ih'
    rw [ih']
    simp [hq.1, hq.2]

theorem parseProps_propToks (ps : Props) (r : List T) (h : PairsOK ps) :
    parseProps (propToks ps ++ tRB :: r) = .ok (sortProps ps, tRB :: r) := by
  unfold propToks
  exact parseProps_list r (sortProps ps) (fun kv hkv => h kv (mem_sortProps.mp hkv))

/-! ### 2. variables -/

def PropsOK (vp : Dict Props) : Prop := ∀ p ∈ vp, PairsOK p.2

theorem dget_mem {β} (d : Dict β) (k : Str) (v : β) (h : dget d k = some v) : (k, v) ∈ d := by
  induction d with
  | nil => simp [dget] at h
  | cons p r ih =>
    obtain ⟨k', v'⟩ := p
    simp only [dget] at h
    split at h
    · rename_i hk; cases h; subst hk; exact List.mem_cons_self
    · exact List.mem_cons_of_mem _ (ih h)

theorem mem_ddel {β} (d : Dict β) (k : Str) (p : Str × β) (h : p ∈ ddel d k) : p ∈ d := by
  induction d with
  | nil => simp [ddel] at h
  | cons q r ih =>
    obtain ⟨k', v'⟩ := q
    simp only [ddel] at h
    split at h
    · exact List.mem_cons_of_mem _ h
    · rcases List.mem_cons.mp h with h | h
      · subst h; exact List.mem_cons_self
      · exact List.mem_cons_of_mem _ (ih h)

theorem PropsOK_ddel {vp : Dict Props} (h : PropsOK vp) (v : Str) : PropsOK (ddel vp v) :=
  fun p hp => h p (mem_ddel vp v p hp)

theorem encVar_snd (vp : Dict Props) (v : Str) : (encVar vp v).2 = (mentVar vp v).2 := by
  unfold encVar mentVar
  cases h : dget vp v with
  | none => rfl
  | some ps => by_cases hp : ps.isEmpty = true <;> simp [hp]

theorem PropsOK_mentVar {vp : Dict Props} (h : PropsOK vp) (v : Str) : PropsOK (mentVar vp v).2 := by
  unfold mentVar
  cases hd : dget vp v with
  | none => exact h
  | some ps =>
    by_cases hp : ps.isEmpty = true
    · simpa [hp] using h
    · simpa [hp] using PropsOK_ddel h v

theorem mentVar_fst_fst (vp : Dict Props) (v : Str) : (mentVar vp v).1.1 = v := by
  unfold mentVar
  cases h : dget vp v with
  | none => rfl
  | some ps => by_cases hp : ps.isEmpty = true <;> simp [hp]

theorem parseVar_encVar (vp : Dict Props) (v : Str) (t : T) (r : List T)
    (hvp : PropsOK vp) (hv : lower v = v) (ht : t.kind ≠ K.lbrack) :
    parseVar ((encVar vp v).1 ++ t :: r) = .ok ((mentVar vp v).1, t :: r) := by
  unfold encVar mentVar
  cases hps : dget vp v with
  | none => simp [parseVar, exp, acc, tS, tk, bind, Except.bind, pure, Except.pure, hv, ht]
  | some ps =>
    by_cases hp : ps.isEmpty = true
    · simp [hp, parseVar, exp, acc, tS, tk, bind, Except.bind, pure, Except.pure, hv, ht]
    · simp only [hp, if_false]
      have hok : PairsOK ps := hvp _ (dget_mem vp v ps hps)
      have := parseProps_propToks ps (t :: r) hok
      simp only [parseVar, List.cons_append]
      simp [exp, acc, tS, tLB, tk, bind, Except.bind, pure, Except.pure, hv, this]
      simp [tRB, tk]

/-! ### 3. arguments -/

theorem mentVars_nil (vp : Dict Props) : mentVars vp [] = ([], vp) := rfl

theorem mentVars_cons (vp : Dict Props) (v : Str) (vs : List Str) :
    mentVars vp (v :: vs) =
      ((mentVar vp v).1 :: (mentVars (mentVar vp v).2 vs).1, (mentVars (mentVar vp v).2 vs).2) := rfl

theorem PropsOK_mentVars : ∀ (vs : List Str) (vp : Dict Props), PropsOK vp → PropsOK (mentVars vp vs).2 := by
  intro vs
  induction vs with
  | nil => intro vp h; exact h
  | cons v vs ih => intro vp h; rw [mentVars_cons]; exact ih _ (PropsOK_mentVar h v)

theorem mentVars_append : ∀ (a b : List Str) (vp : Dict Props),
    mentVars vp (a ++ b) =
      ((mentVars vp a).1 ++ (mentVars (mentVars vp a).2 b).1, (mentVars (mentVars vp a).2 b).2) := by
  intro a
  induction a with
  | nil => intro b vp; simp [mentVars_nil]
  | cons v a ih => intro b vp; simp only [List.cons_append, mentVars_cons, ih]

theorem encArgs_carg (vp : Dict Props) (val : Str) (rest : Dict Str) :
    encArgs vp ((CARG, val) :: rest) = (tF CARG :: tDQ val :: (encArgs vp rest).1, (encArgs vp rest).2) := by
  simp [encArgs]

theorem encArgs_var (vp : Dict Props) (role val : Str) (rest : Dict Str) (h : role ≠ CARG) :
    encArgs vp ((role, val) :: rest) =
      (tF role :: (encVar vp val).1 ++ (encArgs (encVar vp val).2 rest).1, (encArgs (encVar vp val).2 rest).2) := by
  simp [encArgs, h]

def ArgsOK (as : Dict Str) : Prop := ∀ a ∈ as, upper a.1 = a.1 ∧ (a.1 ≠ CARG → lower a.2 = a.2)

theorem encArgs_head (vp : Dict Props) (as : Dict Str) (r : List T) :
    ∃ t r', (encArgs vp as).1 ++ tRB :: r = t :: r' ∧ t.kind ≠ K.lbrack := by
  cases as with
  | nil => exact ⟨tRB, r, rfl, by simp [tRB, tk]⟩
  | cons a rest =>
    obtain ⟨role, val⟩ := a
    by_cases h : role = CARG
    · subst h; rw [encArgs_carg]; exact ⟨tF CARG, _, rfl, by simp [tF, tk]⟩
    · rw [encArgs_var _ _ _ _ h]; exact ⟨tF role, _, rfl, by simp [tF, tk]⟩

theorem encArgs_length : ∀ (as : Dict Str) (vp : Dict Props), as.length ≤ (encArgs vp as).1.length := by
  intro as
  induction as with
  | nil => intro vp; simp
  | cons a rest ih =>
    intro vp
    obtain ⟨role, val⟩ := a
    by_cases h : role = CARG
    · subst h; rw [encArgs_carg]; have := ih vp; simp; omega
    · rw [encArgs_var _ _ _ _ h]; have := ih (encVar vp val).2; simp; omega

theorem upper_CARG : upper CARG = CARG := by decide

theorem parseArgs_encArgs : ∀ (as : Dict Str) (vp : Dict Props) (fuel : Nat) (r : List T),
    PropsOK vp → ArgsOK as → as.length + 1 ≤ fuel →
    parseArgs fuel ((encArgs vp as).1 ++ tRB :: r)
        = .ok (as, (mentVars vp ((as.filter (·.1 ≠ CARG)).map (·.2))).1, tRB :: r)
      ∧ (encArgs vp as).2 = (mentVars vp ((as.filter (·.1 ≠ CARG)).map (·.2))).2 := by
  intro as
  induction as with
  | nil =>
    intro vp fuel r _ _ hf
    obtain ⟨f, rfl⟩ : ∃ f, fuel = f + 1 := ⟨fuel - 1, by omega⟩
    simp [encArgs, parseArgs, acc, tRB, tk, bind, Except.bind, pure, Except.pure, mentVars_nil]
  | cons a rest ih =>
    intro vp fuel r hvp has hf
    obtain ⟨f, rfl⟩ : ∃ f, fuel = f + 1 := ⟨fuel - 1, by simp at hf; omega⟩
    obtain ⟨role, val⟩ := a
    have ha := has (role, val) List.mem_cons_self
    have hrest : ArgsOK rest := fun a h => has a (List.mem_cons_of_mem _ h)
    have hf' : rest.length + 1 ≤ f := by simp at hf; omega
    by_cases h : role = CARG
    · subst h
      obtain ⟨ih1, ih2⟩ := ih vp f r hvp hrest hf'
      rw [encArgs_carg]
      refine ⟨?_, by simpa using ih2⟩
      simp only [List.cons_append]
      rw [parseArgs, acc_eq K.feature _ _ rfl]
      simp only [bind, Except.bind, tF, tk, upper_CARG, if_true, tDQ, exp]
      rw [ih1]
      simp [pure, Except.pure, unescapeDQ_escapeDQ]
    · have hv : lower val = val := ha.2 h
      have hvp1 : PropsOK (encVar vp val).2 := by rw [encVar_snd]; exact PropsOK_mentVar hvp val
      obtain ⟨ih1, ih2⟩ := ih (encVar vp val).2 f r hvp1 hrest hf'
      rw [encArgs_var _ _ _ _ h]
      have hfilt : (((role, val) :: rest).filter (·.1 ≠ CARG)).map (·.2)
          = val :: (rest.filter (·.1 ≠ CARG)).map (·.2) := by simp [List.filter_cons, h]
      rw [hfilt, mentVars_cons, ← encVar_snd]
      refine ⟨?_, ih2⟩
      simp only [List.cons_append, List.append_assoc]
      rw [parseArgs, acc_eq K.feature _ _ rfl]
      obtain ⟨t, r', hr, ht⟩ := encArgs_head (encVar vp val).2 rest r
      have hu : upper (tF role).text = role := ha.1
      simp only [bind, Except.bind, hu, h, if_false]
      rw [hr, parseVar_encVar vp val t r' hvp hv ht, ← hr]
      simp only []
      rw [ih1]
      simp [pure, Except.pure, mentVar_fst_fst]

/-! ### 4. mkArgs -/

theorem dset_new {β} (d : Dict β) (k : Str) (v : β) (h : k ∉ d.map (·.1)) : dset d k v = d ++ [(k, v)] := by
  induction d with
  | nil => rfl
  | cons p d ih =>
    obtain ⟨k', v'⟩ := p
    simp at h
    simp only [dset]
    rw [if_neg (fun e => h.1 e.symm)]
    rw [ih (by simpa using h.2)]
    rfl

theorem foldl_dset_nodup : ∀ (l acc : Dict Str), ((acc ++ l).map (·.1)).Nodup →
    l.foldl (fun d p => dset d p.1 p.2) acc = acc ++ l := by
  intro l
  induction l with
  | nil => intro acc _; simp
  | cons p l ih =>
    intro acc h
    have hp : p.1 ∉ acc.map (·.1) := by
      simp [List.nodup_append] at h
      intro hm
      simp at hm
      obtain ⟨b, hb⟩ := hm
      exact (h.2.2 _ _ hb).1 rfl
    simp only [List.foldl_cons]
    rw [dset_new acc p.1 p.2 hp, ih (acc ++ [p]) (by simpa using h)]
    simp

theorem mkArgs_nodup (l : Dict Str) (h : (l.map (·.1)).Nodup) : mkArgs l = l := by
  unfold mkArgs
  simpa using foldl_dset_nodup l [] (by simpa using h)

/-! ### 5. relations and constraints -/

theorem parsePred_predTok (p : Str) (ts : List T) (h : normalizePred p = p) :
    parsePred (predTok p :: ts) = .ok (p, ts) := by
  unfold predTok
  by_cases h1 : needsQuote p = true
  · simp [h1, parsePred, tDQ, tk, unescapeDQ_escapeDQ, h]
  · by_cases h2 : isSurface p = true
    · simp [h1, h2, parsePred, tk, h]
    · simp [h1, h2, parsePred, tS, tk, h]

theorem lnk_str_nil (l : Lnk) (h : l.str = []) : l = .unspec := by
  have := lnk_roundtrip l
  rw [h] at this
  simp [Lnk.parse] at this
  exact this.symm

theorem parseLnk_nil (t : T) (ts : List T) (h : t.kind ≠ K.lnk) :
    parseLnk (t :: ts) = .ok (.unspec, t :: ts) := by
  simp [parseLnk, acc, h, bind, Except.bind, pure, Except.pure]

theorem parseLnk_lnkToks (l : Lnk) (t : T) (ts : List T) (h : t.kind ≠ K.lnk) :
    parseLnk (lnkToks l ++ t :: ts) = .ok (l, t :: ts) := by
  unfold lnkToks
  by_cases he : l.str.isEmpty = true
  · have : l = .unspec := lnk_str_nil l (by simpa using he)
    subst this
    simp [Lnk.str, parseLnk_nil _ _ h]
  · simp [he, parseLnk, acc, tk, bind, Except.bind, lnk_roundtrip, pure, Except.pure]

theorem accDQ_optDQ (s : Option Str) (t : T) (ts : List T) (h : t.kind ≠ K.dq) :
    acc .dq (optDQ s ++ t :: ts) = .ok (s.map escapeDQ, t :: ts) := by
  cases s <;> simp [optDQ, acc, tDQ, tk, h]

theorem parseLnk_pre (b : Bool) (l : Lnk) (s : Option Str) (t : T) (ts : List T)
    (h1 : t.kind ≠ K.lnk) :
    parseLnk ((if b then lnkToks l ++ optDQ s else []) ++ t :: ts)
      = .ok (if b then l else .unspec, (if b then optDQ s else []) ++ t :: ts) := by
  cases b
  · simp [parseLnk_nil _ _ h1]
  · cases s with
    | none => simp [optDQ, parseLnk_lnkToks _ _ _ h1]
    | some s =>
      simp only [optDQ, if_true, List.append_assoc, List.cons_append, List.nil_append]
      rw [parseLnk_lnkToks _ _ _ (by simp [tDQ, tk])]

theorem accDQ_pre (b : Bool) (s : Option Str) (t : T) (ts : List T) (h : t.kind ≠ K.dq) :
    acc .dq ((if b then optDQ s else []) ++ t :: ts)
      = .ok ((if b then s else none).map escapeDQ, t :: ts) := by
  cases b
  · simp [acc_ne _ _ _ h]
  · simp [accDQ_optDQ _ _ _ h]

theorem map_unescape_escape (x : Option Str) : (x.map escapeDQ).map unescapeDQ = x := by
  cases x <;> simp [unescapeDQ_escapeDQ]

theorem map_unescape_escape' (x : Option Str) : Option.map (unescapeDQ ∘ escapeDQ) x = x := by
  cases x <;> simp [unescapeDQ_escapeDQ]

theorem encRel_eq (o : Opts) (vp : Dict Props) (ep : EP) :
    encRel o vp ep =
      (tLB :: predTok ep.pred :: (if o.lnk then lnkToks ep.lnk ++ optDQ ep.surface else [])
         ++ tF (S "LBL") :: tS ep.label :: (encArgs vp (sortArgs ep.args)).1 ++ [tRB],
       (encArgs vp (sortArgs ep.args)).2) := rfl

theorem parseRel_encRel (o : Opts) (vp : Dict Props) (ep : EP) (r : List T)
    (hvp : PropsOK vp) (he : ExprEP ep) :
    parseRel ((encRel o vp ep).1 ++ r) = .ok (epViewS o ep, (mentVars vp (epVarPos ep)).1, r)
      ∧ (encRel o vp ep).2 = (mentVars vp (epVarPos ep)).2 := by
  have hsa : ArgsOK (sortArgs ep.args) := fun a ha =>
    ⟨he.roles a (mem_sortArgs.mp ha), he.vals a (mem_sortArgs.mp ha)⟩
  have hnd := sortArgs_nodup he.rolesNodup
  have key := fun fuel => parseArgs_encArgs (sortArgs ep.args) vp fuel r hvp hsa
  rw [encRel_eq]
  refine ⟨?_, (key _ (Nat.le_refl _)).2⟩
  simp only [List.cons_append, List.append_assoc, List.nil_append]
  unfold parseRel
  simp only [bind, Except.bind]
  rw [exp_eq K.lbrack tLB _ rfl]
  simp only []
  rw [parsePred_predTok _ _ he.pred]
  simp only []
  rw [parseLnk_pre _ _ _ _ _ (by simp [tF, tk])]
  simp only []
  rw [accDQ_pre _ _ _ _ (by simp [tF, tk])]
  simp only []
  rw [exp_eq K.feature (tF (S "LBL")) _ rfl]
  simp only [tF, tk, ne_eq, not_true_eq_false, if_false]
  rw [exp_eq K.symbol (tS ep.label) _ rfl]
  simp only []
  rw [(key _ (by have := encArgs_length (sortArgs ep.args) vp; simp; omega)).1]
  simp only []
  rw [exp_eq K.rbrack tRB _ rfl]
  simp [pure, Except.pure, epViewS, mkArgs_nodup _ hnd, tS, tk, he.label, map_unescape_escape', epVarPos]

theorem encRels_cons (o : Opts) (vp : Dict Props) (ep : EP) (rest : List EP) :
    encRels o vp (ep :: rest) =
      ((encRel o vp ep).1 ++ (encRels o (encRel o vp ep).2 rest).1,
       (encRels o (encRel o vp ep).2 rest).2) := rfl

theorem encRel_head (o : Opts) (vp : Dict Props) (ep : EP) : ∃ X, (encRel o vp ep).1 = tLB :: X := by
  rw [encRel_eq]; exact ⟨_, rfl⟩

theorem parseRels_step (f : Nat) (t : T) (ts ts1 ts2 : List T) (ep : EP) (eps : List EP)
    (m1 ms : List Mention) (h : t.kind = K.lbrack)
    (h1 : parseRel (t :: ts) = .ok (ep, m1, ts1)) (h2 : parseRels f ts1 = .ok (eps, ms, ts2)) :
    parseRels (f + 1) (t :: ts) = .ok (ep :: eps, m1 ++ ms, ts2) := by
  rw [parseRels]
  simp [h, h1, h2, bind, Except.bind, pure, Except.pure]

theorem parseRels_encRels (o : Opts) : ∀ (eps : List EP) (vp : Dict Props) (fuel : Nat) (t : T) (r : List T),
    PropsOK vp → (∀ e ∈ eps, ExprEP e) → eps.length + 1 ≤ fuel → t.kind ≠ K.lbrack →
    parseRels fuel ((encRels o vp eps).1 ++ t :: r)
        = .ok (eps.map (epViewS o), (mentVars vp (eps.flatMap epVarPos)).1, t :: r)
      ∧ (encRels o vp eps).2 = (mentVars vp (eps.flatMap epVarPos)).2 := by
  intro eps
  induction eps with
  | nil =>
    intro vp fuel t r _ _ hf ht
    obtain ⟨f, rfl⟩ : ∃ f, fuel = f + 1 := ⟨fuel - 1, by omega⟩
    simp [encRels, parseRels, ht, pure, Except.pure, mentVars_nil]
  | cons ep rest ih =>
    intro vp fuel t r hvp hes hf ht
    obtain ⟨f, rfl⟩ : ∃ f, fuel = f + 1 := ⟨fuel - 1, by simp at hf; omega⟩
    have he := hes ep List.mem_cons_self
    obtain ⟨p1, p2⟩ := parseRel_encRel o vp ep ((encRels o (encRel o vp ep).2 rest).1 ++ t :: r) hvp he
    have hvp1 : PropsOK (encRel o vp ep).2 := by rw [p2]; exact PropsOK_mentVars _ _ hvp
    obtain ⟨q1, q2⟩ := ih (encRel o vp ep).2 f t r hvp1 (fun e h => hes e (List.mem_cons_of_mem _ h))
      (by simp at hf; omega) ht
    rw [encRels_cons, List.flatMap_cons, mentVars_append, ← p2]
    refine ⟨?_, q2⟩
    simp only [List.append_assoc, List.map_cons]
    obtain ⟨X, hX⟩ := encRel_head o vp ep
    rw [hX] at p1 ⊢
    exact parseRels_step f tLB _ _ _ _ _ _ _ rfl p1 q1

theorem parseVar_bare (v : Str) (t : T) (r : List T) (ht : t.kind ≠ K.lbrack) :
    parseVar (tS v :: t :: r) = .ok ((lower v, []), t :: r) := by
  simp [parseVar, exp, acc, tS, tk, bind, Except.bind, pure, Except.pure, ht]

def ConsOK (c : Cons) : Prop := lower c.lhs = c.lhs ∧ lower c.rel = c.rel ∧ lower c.rhs = c.rhs

theorem parseConsList_step (f : Nat) (t : T) (ts ts1 ts2 : List T) (c : Cons) (cs : List Cons)
    (m1 ms : List Mention) (h : t.kind = K.symbol)
    (h1 : parseCons (t :: ts) = .ok (c, m1, ts1)) (h2 : parseConsList f ts1 = .ok (cs, ms, ts2)) :
    parseConsList (f + 1) (t :: ts) = .ok (c :: cs, m1 ++ ms, ts2) := by
  rw [parseConsList]
  simp [h, h1, h2, bind, Except.bind, pure, Except.pure]

theorem encHcons_head (hs : List Cons) (r : List T) :
    ∃ t r', encHcons hs ++ tRA :: r = t :: r' ∧ t.kind ≠ K.lbrack := by
  cases hs with
  | nil => exact ⟨tRA, r, rfl, by simp [tRA, tk]⟩
  | cons c hs => exact ⟨tS c.lhs, _, rfl, by simp [tS, tk]⟩

theorem parseConsList_encHcons : ∀ (hs : List Cons) (fuel : Nat) (r : List T),
    (∀ c ∈ hs, ConsOK c) → hs.length + 1 ≤ fuel →
    parseConsList fuel (encHcons hs ++ tRA :: r)
      = .ok (hs, hs.flatMap (fun c => [((c.lhs, []) : Mention), (c.rhs, [])]), tRA :: r) := by
  intro hs
  induction hs with
  | nil =>
    intro fuel r _ hf
    obtain ⟨f, rfl⟩ : ∃ f, fuel = f + 1 := ⟨fuel - 1, by omega⟩
    simp [encHcons, parseConsList, tRA, tk, pure, Except.pure]
  | cons c hs ih =>
    intro fuel r hcs hf
    obtain ⟨f, rfl⟩ : ∃ f, fuel = f + 1 := ⟨fuel - 1, by simp at hf; omega⟩
    have hc := hcs c List.mem_cons_self
    have q := ih f r (fun c h => hcs c (List.mem_cons_of_mem _ h)) (by simp at hf; omega)
    obtain ⟨t, r', hr, ht⟩ := encHcons_head hs r
    have e : encHcons (c :: hs) ++ tRA :: r = tS c.lhs :: tS c.rel :: tS c.rhs :: (encHcons hs ++ tRA :: r) := rfl
    rw [e, List.flatMap_cons]
    refine parseConsList_step f _ _ _ _ c hs _ _ rfl ?_ q
    rw [hr]
    unfold parseCons
    simp only [bind, Except.bind]
    rw [parseVar_bare _ _ _ (by simp [tS, tk])]
    simp only []
    rw [exp_eq K.symbol (tS c.rel) _ rfl]
    simp only []
    rw [parseVar_bare _ _ _ ht]
    obtain ⟨h1, h2, h3⟩ := hc
    simp [pure, Except.pure, tS, tk, h1, h2, h3]

theorem encIcons_cons (vp : Dict Props) (c : Cons) (rest : List Cons) :
    encIcons vp (c :: rest) =
      ((encVar vp c.lhs).1 ++ tS c.rel :: (encVar (encVar vp c.lhs).2 c.rhs).1
          ++ (encIcons (encVar (encVar vp c.lhs).2 c.rhs).2 rest).1,
       (encIcons (encVar (encVar vp c.lhs).2 c.rhs).2 rest).2) := rfl

theorem encVar_head (vp : Dict Props) (v : Str) : ∃ X, (encVar vp v).1 = tS v :: X := by
  unfold encVar
  cases h : dget vp v with
  | none => exact ⟨_, rfl⟩
  | some ps => by_cases hp : ps.isEmpty = true <;> simp [hp]

theorem encIcons_head (vp : Dict Props) (cs : List Cons) (r : List T) :
    ∃ t r', (encIcons vp cs).1 ++ tRA :: r = t :: r' ∧ t.kind ≠ K.lbrack := by
  cases cs with
  | nil => exact ⟨tRA, r, rfl, by simp [tRA, tk]⟩
  | cons c cs =>
    obtain ⟨X, hX⟩ := encVar_head vp c.lhs
    rw [encIcons_cons]
    simp only [hX, List.cons_append]
    exact ⟨tS c.lhs, _, rfl, by simp [tS, tk]⟩

theorem parseCons_icons (vp : Dict Props) (c : Cons) (t : T) (r : List T)
    (hvp : PropsOK vp) (hc : ConsOK c) (ht : t.kind ≠ K.lbrack) :
    parseCons ((encVar vp c.lhs).1 ++ tS c.rel :: ((encVar (encVar vp c.lhs).2 c.rhs).1 ++ t :: r))
      = .ok (c, [(mentVar vp c.lhs).1, (mentVar (mentVar vp c.lhs).2 c.rhs).1], t :: r) := by
  have hvp1 : PropsOK (encVar vp c.lhs).2 := by rw [encVar_snd]; exact PropsOK_mentVar hvp _
  unfold parseCons
  simp only [bind, Except.bind]
  rw [parseVar_encVar vp c.lhs (tS c.rel) _ hvp hc.1 (by simp [tS, tk])]
  simp only []
  rw [exp_eq K.symbol (tS c.rel) _ rfl]
  simp only []
  rw [parseVar_encVar _ c.rhs t r hvp1 hc.2.2 ht]
  simp [pure, Except.pure, mentVar_fst_fst, tS, tk, hc.2.1, encVar_snd]

theorem parseConsList_encIcons : ∀ (cs : List Cons) (vp : Dict Props) (fuel : Nat) (r : List T),
    PropsOK vp → (∀ c ∈ cs, ConsOK c) → cs.length + 1 ≤ fuel →
    parseConsList fuel ((encIcons vp cs).1 ++ tRA :: r)
      = .ok (cs, (mentVars vp (cs.flatMap (fun c => [c.lhs, c.rhs]))).1, tRA :: r) := by
  intro cs
  induction cs with
  | nil =>
    intro vp fuel r _ _ hf
    obtain ⟨f, rfl⟩ : ∃ f, fuel = f + 1 := ⟨fuel - 1, by omega⟩
    simp [encIcons, parseConsList, tRA, tk, pure, Except.pure, mentVars_nil]
  | cons c cs ih =>
    intro vp fuel r hvp hcs hf
    obtain ⟨f, rfl⟩ : ∃ f, fuel = f + 1 := ⟨fuel - 1, by simp at hf; omega⟩
    have hc := hcs c List.mem_cons_self
    have hvp1 : PropsOK (encVar vp c.lhs).2 := by rw [encVar_snd]; exact PropsOK_mentVar hvp _
    have hvp2 : PropsOK (encVar (encVar vp c.lhs).2 c.rhs).2 := by
      rw [encVar_snd]; exact PropsOK_mentVar hvp1 _
    have q := ih (encVar (encVar vp c.lhs).2 c.rhs).2 f r hvp2
      (fun c h => hcs c (List.mem_cons_of_mem _ h)) (by simp at hf; omega)
    obtain ⟨t, r', hr, ht⟩ := encIcons_head (encVar (encVar vp c.lhs).2 c.rhs).2 cs r
    have p := parseCons_icons vp c t r' hvp hc ht
    rw [← hr] at p
    rw [encIcons_cons]
    simp only [List.flatMap_cons, List.cons_append, List.nil_append, mentVars_cons, List.append_assoc]
    obtain ⟨X, hX⟩ := encVar_head vp c.lhs
    rw [hX] at p ⊢
    simp only [List.cons_append] at p ⊢
    have h := parseConsList_step f _ _ _ _ c cs _ _ rfl p q
    simp only [encVar_snd] at h ⊢
    exact h

/-! ### 6. the feature loop -/

theorem encIcons_length : ∀ (cs : List Cons) (vp : Dict Props), cs.length ≤ (encIcons vp cs).1.length := by
  intro cs
  induction cs with
  | nil => intro vp; simp
  | cons c cs ih => intro vp; rw [encIcons_cons]; have := ih (encVar (encVar vp c.lhs).2 c.rhs).2; simp; omega

theorem parseFeatures_end (f : Nat) (st : St) (rest : List T) :
    parseFeatures (f + 1) st (tRB :: rest) = .ok (st, rest) := by
  simp [parseFeatures, acc, exp, tRB, tk, bind, Except.bind, pure, Except.pure]

theorem pf_icons (vp : Dict Props) (cs : List Cons) (rest : List T) (hvp : PropsOK vp)
    (hcs : ∀ c ∈ cs, ConsOK c) (fuel : Nat) (st : St)
    (hf : (section_ "ICONS" (encIcons vp cs).1 ++ tRB :: rest).length ≤ fuel) :
    parseFeatures fuel st (section_ "ICONS" (encIcons vp cs).1 ++ tRB :: rest)
      = .ok ({ st with icons := st.icons ++ cs,
                       ments := st.ments ++ (mentVars vp (cs.flatMap (fun c => [c.lhs, c.rhs]))).1 }, rest) := by
  cases cs with
  | nil =>
    obtain ⟨f, rfl⟩ : ∃ f, fuel = f + 1 := ⟨fuel - 1, by simp [section_, encIcons] at hf; omega⟩
    simp [section_, encIcons, mentVars_nil, parseFeatures_end]
  | cons c cs =>
    have hne : (encIcons vp (c :: cs)).1.isEmpty = false := by
      obtain ⟨X, hX⟩ := encVar_head vp c.lhs; rw [encIcons_cons]; simp [hX]
    have hl := encIcons_length (c :: cs) vp
    simp only [section_, hne] at hf ⊢
    obtain ⟨f, rfl⟩ : ∃ f, fuel = f + 2 := ⟨fuel - 2, by simp at hf; omega⟩
    have u1 : upper (S "ICONS") = S "ICONS" := by decide
    have q := parseConsList_encIcons (c :: cs) vp
      ((encIcons vp (c :: cs)).1 ++ tRA :: tRB :: rest).length (tRB :: rest) hvp hcs (by simp at hl ⊢; omega)
    rw [parseFeatures]
    simp only [Bool.false_eq_true, if_false, List.cons_append, List.append_assoc, List.nil_append,
      bind, Except.bind]
    rw [acc_eq K.feature (tF (S "ICONS")) _ rfl]
    simp only [tF, tk, u1]
    rw [if_neg (by decide), if_neg (by decide), if_neg (by decide), if_neg (by decide), if_pos trivial]
    rw [exp_eq K.langle tLA _ rfl]
    simp only []
    rw [q]
    simp only []
    rw [exp_eq K.rangle tRA _ rfl]
    simp only []
    rw [parseFeatures_end]

theorem encHcons_length (hs : List Cons) : hs.length ≤ (encHcons hs).length := by
  induction hs with
  | nil => simp
  | cons c hs ih => simp [encHcons, List.flatMap_cons] at ih ⊢; omega

theorem pf_hcons (hs : List Cons) (tl rest : List T) (k : St → St)
    (hhs : ∀ c ∈ hs, ConsOK c)
    (hk : ∀ fuel st, tl.length ≤ fuel → parseFeatures fuel st tl = .ok (k st, rest))
    (fuel : Nat) (st : St)
    (hf : (section_ "HCONS" (encHcons hs) ++ tl).length ≤ fuel) :
    parseFeatures fuel st (section_ "HCONS" (encHcons hs) ++ tl)
      = .ok (k { st with hcons := st.hcons ++ hs,
                         ments := st.ments ++ hs.flatMap (fun c => [((c.lhs, []) : Mention), (c.rhs, [])]) }, rest) := by
  cases hs with
  | nil =>
    simp [section_, encHcons] at hf ⊢
    exact hk fuel st hf
  | cons c cs =>
    have hne : (encHcons (c :: cs)).isEmpty = false := by simp [encHcons, List.flatMap_cons]
    have hl := encHcons_length (c :: cs)
    simp only [section_, hne] at hf ⊢
    obtain ⟨f, rfl⟩ : ∃ f, fuel = f + 1 := ⟨fuel - 1, by simp at hf; omega⟩
    have u1 : upper (S "HCONS") = S "HCONS" := by decide
    have q := parseConsList_encHcons (c :: cs)
      (encHcons (c :: cs) ++ tRA :: tl).length tl hhs (by simp at hl ⊢; omega)
    rw [parseFeatures]
    simp only [Bool.false_eq_true, if_false, List.cons_append, List.append_assoc, List.nil_append,
      bind, Except.bind]
    rw [acc_eq K.feature (tF (S "HCONS")) _ rfl]
    simp only [tF, tk, u1]
    rw [if_neg (by decide), if_neg (by decide), if_neg (by decide), if_pos trivial]
    rw [exp_eq K.langle tLA _ rfl]
    simp only []
    rw [q]
    simp only []
    rw [exp_eq K.rangle tRA _ rfl]
    simp only []
    exact hk f _ (by simp at hf; omega)

theorem encRels_length (o : Opts) : ∀ (eps : List EP) (vp : Dict Props), eps.length ≤ (encRels o vp eps).1.length := by
  intro eps
  induction eps with
  | nil => intro vp; simp
  | cons e eps ih =>
    intro vp
    obtain ⟨X, hX⟩ := encRel_head o vp e
    rw [encRels_cons]; have := ih (encRel o vp e).2; simp [hX]; omega

theorem pf_rels (o : Opts) (vp : Dict Props) (eps : List EP) (tl rest : List T) (k : St → St)
    (hvp : PropsOK vp) (hes : ∀ e ∈ eps, ExprEP e)
    (hk : ∀ fuel st, tl.length ≤ fuel → parseFeatures fuel st tl = .ok (k st, rest))
    (fuel : Nat) (st : St)
    (hf : (section_ "RELS" (encRels o vp eps).1 ++ tl).length ≤ fuel) :
    parseFeatures fuel st (section_ "RELS" (encRels o vp eps).1 ++ tl)
      = .ok (k { st with rels := st.rels ++ eps.map (epViewS o),
                         ments := st.ments ++ (mentVars vp (eps.flatMap epVarPos)).1 }, rest) := by
  cases eps with
  | nil =>
    simp [section_, encRels, mentVars_nil] at hf ⊢
    exact hk fuel st hf
  | cons c cs =>
    have hne : (encRels o vp (c :: cs)).1.isEmpty = false := by
      obtain ⟨X, hX⟩ := encRel_head o vp c; rw [encRels_cons]; simp [hX]
    have hl := encRels_length o (c :: cs) vp
    simp only [section_, hne] at hf ⊢
    obtain ⟨f, rfl⟩ : ∃ f, fuel = f + 1 := ⟨fuel - 1, by simp at hf; omega⟩
    have u1 : upper (S "RELS") = S "RELS" := by decide
    have q := (parseRels_encRels o (c :: cs) vp
      ((encRels o vp (c :: cs)).1 ++ tRA :: tl).length tRA tl hvp hes (by simp at hl ⊢; omega)
      (by simp [tRA, tk])).1
    rw [parseFeatures]
    simp only [Bool.false_eq_true, if_false, List.cons_append, List.append_assoc, List.nil_append,
      bind, Except.bind]
    rw [acc_eq K.feature (tF (S "RELS")) _ rfl]
    simp only [tF, tk, u1]
    rw [if_neg (by decide), if_neg (by decide), if_pos trivial]
    rw [exp_eq K.langle tLA _ rfl]
    simp only []
    rw [q]
    simp only []
    rw [exp_eq K.rangle tRA _ rfl]
    simp only []
    exact hk f _ (by simp at hf; omega)

theorem pf_top (t : Str) (tl rest : List T) (k : St → St) (ht : lower t = t)
    (hk : ∀ fuel st, tl.length ≤ fuel → parseFeatures fuel st tl = .ok (k st, rest))
    (fuel : Nat) (st : St) (hf : (tF (S c01TopFeature) :: tS t :: tl).length ≤ fuel) :
    parseFeatures fuel st (tF (S c01TopFeature) :: tS t :: tl) = .ok (k { st with top := some t }, rest) := by
  obtain ⟨f, rfl⟩ : ∃ f, fuel = f + 1 := ⟨fuel - 1, by simp at hf; omega⟩
  have u1 : upper (S c01TopFeature) = S c01TopFeature := by decide
  rw [parseFeatures]
  simp only [bind, Except.bind]
  rw [acc_eq K.feature (tF (S c01TopFeature)) _ rfl]
  simp only [tF, tk, u1]
  rw [if_pos (by decide)]
  rw [exp_eq K.symbol (tS t) _ rfl]
  simp only [tS, tk, ht]
  exact hk f _ (by simp at hf; omega)

theorem pf_index (vp : Dict Props) (i : Str) (t : T) (tl rest : List T) (k : St → St)
    (hvp : PropsOK vp) (hi : lower i = i) (ht : t.kind ≠ K.lbrack)
    (hk : ∀ fuel st, (t :: tl).length ≤ fuel → parseFeatures fuel st (t :: tl) = .ok (k st, rest))
    (fuel : Nat) (st : St) (hf : (tF (S "INDEX") :: (encVar vp i).1 ++ t :: tl).length ≤ fuel) :
    parseFeatures fuel st (tF (S "INDEX") :: (encVar vp i).1 ++ t :: tl)
      = .ok (k { st with index := some i, ments := st.ments ++ [(mentVar vp i).1] }, rest) := by
  obtain ⟨f, rfl⟩ : ∃ f, fuel = f + 1 := ⟨fuel - 1, by simp at hf; omega⟩
  have u1 : upper (S "INDEX") = S "INDEX" := by decide
  rw [List.cons_append, parseFeatures]
  simp only [bind, Except.bind]
  rw [acc_eq K.feature (tF (S "INDEX")) _ rfl]
  simp only [tF, tk, u1]
  rw [if_neg (by decide), if_pos trivial]
  rw [parseVar_encVar vp i t tl hvp hi ht]
  simp only [mentVar_fst_fst]
  exact hk f _ (by simp at hf ⊢; omega)

/-! ### 7. assembly -/

def Hd (l : List T) : Prop := ∃ t tl, l = t :: tl ∧ (t.kind = K.feature ∨ t.kind = K.rbrack)

theorem Hd_section (name : String) (ts tl : List T) (h : Hd tl) : Hd (section_ name ts ++ tl) := by
  unfold section_
  split
  · simpa using h
  · exact ⟨tF (S name), _, rfl, Or.inl rfl⟩

theorem Hd_ne {l : List T} (h : Hd l) :
    ∃ t tl, l = t :: tl ∧ t.kind ≠ K.lbrack ∧ t.kind ≠ K.lnk ∧ t.kind ≠ K.dq := by
  obtain ⟨t, tl, e, hk⟩ := h
  refine ⟨t, tl, e, ?_⟩
  rcases hk with hk | hk <;> simp [hk]

def vp0 (o : Opts) (m : MRS) : Dict Props := if o.properties then m.vars else []
def surfT (o : Opts) (m : MRS) : List T :=
  if o.lnk then (if m.lnk.truthy then lnkToks m.lnk else []) ++ optDQ m.surface else []
def topT (top : Option Str) : List T :=
  match top with | none => [] | some t => [tF (S c01TopFeature), tS t]
def ixT (vp : Dict Props) (ix : Option Str) : List T :=
  match ix with | none => [] | some i => tF (S "INDEX") :: (encVar vp i).1
def ixVp (vp : Dict Props) (ix : Option Str) : Dict Props :=
  match ix with | none => vp | some i => (encVar vp i).2

theorem toks_eq (o : Opts) (m : MRS) :
    toks o m = tLB :: surfT o m ++ topT m.top ++ ixT (vp0 o m) m.index
      ++ section_ "RELS" (encRels o (ixVp (vp0 o m) m.index) m.rels).1
      ++ section_ "HCONS" (encHcons m.hcons)
      ++ section_ "ICONS" (encIcons (encRels o (ixVp (vp0 o m) m.index) m.rels).2 m.icons).1 ++ [tRB] := by
  obtain ⟨top, index, rels, hcons, icons, vars, lnk, surface, ident⟩ := m
  cases index <;> cases top <;> rfl

theorem Hd_topT (top : Option Str) (tl : List T) (h : Hd tl) : Hd (topT top ++ tl) := by
  cases top with
  | none => simpa [topT] using h
  | some t => exact ⟨tF (S c01TopFeature), _, rfl, Or.inl rfl⟩

theorem Hd_ixT (vp : Dict Props) (ix : Option Str) (tl : List T) (h : Hd tl) : Hd (ixT vp ix ++ tl) := by
  cases ix with
  | none => simpa [ixT] using h
  | some t => exact ⟨tF (S "INDEX"), _, rfl, Or.inl rfl⟩

theorem pf_topOpt (top : Option Str) (tl rest : List T) (k : St → St)
    (ht : ∀ t, top = some t → lower t = t)
    (hk : ∀ fuel st, tl.length ≤ fuel → parseFeatures fuel st tl = .ok (k st, rest))
    (fuel : Nat) (st : St) (hf : (topT top ++ tl).length ≤ fuel) :
    parseFeatures fuel st (topT top ++ tl)
      = .ok (k { st with top := top.or st.top }, rest) := by
  cases top with
  | none => simpa [topT] using hk fuel st (by simpa [topT] using hf)
  | some t => exact pf_top t tl rest k (ht t rfl) hk fuel st hf

theorem pf_indexOpt (vp : Dict Props) (ix : Option Str) (t : T) (tl rest : List T) (k : St → St)
    (hvp : PropsOK vp) (hi : ∀ i, ix = some i → lower i = i) (ht : t.kind ≠ K.lbrack)
    (hk : ∀ fuel st, (t :: tl).length ≤ fuel → parseFeatures fuel st (t :: tl) = .ok (k st, rest))
    (fuel : Nat) (st : St) (hf : (ixT vp ix ++ t :: tl).length ≤ fuel) :
    parseFeatures fuel st (ixT vp ix ++ t :: tl)
      = .ok (k { st with index := ix.or st.index,
                         ments := st.ments ++ (mentVars vp ix.toList).1 }, rest) := by
  cases ix with
  | none => simpa [ixT, mentVars_nil] using hk fuel st (by simpa [ixT] using hf)
  | some i => exact pf_index vp i t tl rest k hvp (hi i rfl) ht hk fuel st hf

theorem lnkToks_truthy (l : Lnk) :
    (if l.truthy then lnkToks l else []) = lnkToks (if l.truthy then l else .unspec) := by
  cases h : l.truthy <;> simp [lnkToks, Lnk.str]

theorem encRels_snd (o : Opts) (vp : Dict Props) (eps : List EP) (hvp : PropsOK vp)
    (hes : ∀ e ∈ eps, ExprEP e) : (encRels o vp eps).2 = (mentVars vp (eps.flatMap epVarPos)).2 :=
  (parseRels_encRels o eps vp (eps.length + 1) tRA [] hvp hes (Nat.le_refl _) (by simp [tRA, tk])).2

theorem ixVp_eq (vp : Dict Props) (ix : Option Str) : ixVp vp ix = (mentVars vp ix.toList).2 := by
  cases ix with
  | none => rfl
  | some i => simp [ixVp, encVar_snd, mentVars_cons, mentVars_nil]

theorem mentions_eq (o : Opts) (m : MRS) :
    mentions o m =
      (mentVars (vp0 o m) m.index.toList).1
        ++ (mentVars (mentVars (vp0 o m) m.index.toList).2 (m.rels.flatMap epVarPos)).1
        ++ m.hcons.flatMap (fun c => [((c.lhs, []) : Mention), (c.rhs, [])])
        ++ (mentVars (mentVars (mentVars (vp0 o m) m.index.toList).2 (m.rels.flatMap epVarPos)).2
              (m.icons.flatMap (fun c => [c.lhs, c.rhs]))).1 := rfl

theorem optMatch (x y : Option Str) (hy : y = none) :
    (match x with | none => y | some t => some t) = x := by
  subst hy; cases x <;> rfl

theorem _root_.Verif.C01.parse_toks (o : Opts) (m : MRS) (rest : List T) (h : ExprS m) :
    parse (toks o m ++ rest) = .ok (decodedS o m, rest) := by
  have hvp0 : PropsOK (vp0 o m) := by
    unfold vp0
    cases o.properties
    · intro p hp; simp at hp
    · exact fun p hp => h.props p hp
  obtain ⟨V1, hV1⟩ : ∃ V, V = (mentVars (vp0 o m) m.index.toList).2 := ⟨_, rfl⟩
  obtain ⟨V2, hV2⟩ : ∃ V, V = (mentVars V1 (m.rels.flatMap epVarPos)).2 := ⟨_, rfl⟩
  have pV1 : PropsOK V1 := by rw [hV1]; exact PropsOK_mentVars _ _ hvp0
  have pV2 : PropsOK V2 := by rw [hV2]; exact PropsOK_mentVars _ _ pV1
  have e1 : ixVp (vp0 o m) m.index = V1 := by rw [hV1]; exact ixVp_eq _ _
  have e2 : (encRels o V1 m.rels).2 = V2 := by rw [hV2]; exact encRels_snd o V1 m.rels pV1 h.rels
  rw [toks_eq, e1, e2]
  have hk3 := pf_icons V2 m.icons rest pV2 h.icons
  have hk2 := pf_hcons m.hcons _ rest _ h.hcons hk3
  have hk1 := pf_rels o V1 m.rels _ rest _ pV1 h.rels hk2
  have hd3 : Hd (section_ "ICONS" (encIcons V2 m.icons).1 ++ tRB :: rest) :=
    Hd_section _ _ _ ⟨tRB, rest, rfl, Or.inr rfl⟩
  have hd2 := Hd_section "HCONS" (encHcons m.hcons) _ hd3
  have hd1 := Hd_section "RELS" (encRels o V1 m.rels).1 _ hd2
  obtain ⟨t1, tl1, eq1, ht1, _, _⟩ := Hd_ne hd1
  have hd1' : Hd (t1 :: tl1) := eq1 ▸ hd1
  rw [eq1] at hk1
  have hk0 := pf_indexOpt (vp0 o m) m.index t1 tl1 rest _ hvp0 h.index ht1 hk1
  have hkT := pf_topOpt m.top _ rest _ h.top hk0
  have hdT := Hd_topT m.top _ (Hd_ixT (vp0 o m) m.index _ hd1')
  obtain ⟨t0, tl0, eq0, _, hl0, hq0⟩ := Hd_ne hdT
  simp only [List.cons_append, List.append_assoc, List.nil_append]
  rw [eq1]
  rw [eq0] at hkT ⊢
  unfold parse
  simp only [bind, Except.bind]
  rw [exp_eq K.lbrack tLB _ rfl]
  simp only []
  unfold surfT
  rw [lnkToks_truthy, parseLnk_pre _ _ _ _ _ hl0]
  simp only []
  rw [accDQ_pre _ _ _ _ hq0]
  simp only []
  rw [hkT _ _ (Nat.le_refl _)]
  simp only [pure, Except.pure, decodedS, mentions_eq, ← hV1, ← hV2]
  simp [map_unescape_escape']
  cases o.lnk <;> cases m.lnk.truthy <;> simp

/-- the tokens of several items one after the other. -/
def _root_.Verif.C01.toksMany (o : Opts) (ms : List MRS) : List T := ms.flatMap (toks o)

theorem toks_head (o : Opts) (m : MRS) : ∃ X, toks o m = tLB :: X := by
  rw [toks_eq]; exact ⟨_, rfl⟩

theorem _root_.Verif.C01.parseMany_toksMany (o : Opts) (ms : List MRS) (h : ∀ m ∈ ms, ExprS m)
    (fuel : Nat) (hf : ms.length + 1 ≤ fuel) :
    parseMany fuel (toksMany o ms) = .ok (ms.map (decodedS o)) := by
  induction ms generalizing fuel with
  | nil =>
    obtain ⟨f, rfl⟩ : ∃ f, fuel = f + 1 := ⟨fuel - 1, by omega⟩
    simp [toksMany, parseMany]
  | cons m ms ih =>
    obtain ⟨f, rfl⟩ : ∃ f, fuel = f + 1 := ⟨fuel - 1, by simp at hf; omega⟩
    have ih' := ih (fun m hm => h m (List.mem_cons_of_mem _ hm)) f (by simp at hf; omega)
    have p := parse_toks o m (toksMany o ms) (h m List.mem_cons_self)
    obtain ⟨X, hX⟩ := toks_head o m
    have e : toksMany o (m :: ms) = tLB :: (X ++ toksMany o ms) := by
      simp [toksMany, List.flatMap_cons, hX]
    rw [hX, List.cons_append] at p
    rw [e, parseMany, p]
    simp only [ih', List.map_cons]

end Verif.C01.SimpleL
