/-
C01 — the Indexed MRS lexer reads back the un-indented layout of any list of lexically expressible
tokens (`lexIx_renderIx`), and the encoder `toksIx` produces such tokens from a lexically
expressible MRS (`toksIx_ok`).
-/
import Verif.C01.IxLexer
import Verif.C01.LexLemmas
import Verif.C01.IxLemmas

namespace Verif.C01.IxLexL
open Verif.Codec Verif.Tables Verif.C01 Verif.C01.Ix Verif.C01.Lex Verif.C01.LexL Verif.C01.IxLex

/-! ### characters -/

theorem symOkI_facts {c : Char} (h : symOkI c = true) :
    isPySpace c = false ∧ c ≠ '"' ∧ c ≠ '(' ∧ c ≠ ')' ∧ c ≠ ',' ∧ c ≠ ':' ∧ c ≠ '<' ∧ c ≠ '>' ∧ c ≠ '{' ∧ c ≠ '}' := by
  simp only [symOkI, Bool.and_eq_true, Bool.not_eq_true', decide_eq_true_eq] at h
  obtain ⟨⟨⟨⟨⟨⟨⟨⟨⟨⟨⟨⟨⟨⟨⟨h1, h2⟩, _⟩, h4⟩, h5⟩, _⟩, h7⟩, h8⟩, _⟩, h10⟩, _⟩, h12⟩, _⟩, _⟩, h15⟩, h16⟩ := h
  exact ⟨h1, h2, h4, h5, h7, h8, h10, h12, h15, h16⟩

theorem symOkI_noLB {c : Char} (h : symOkI c = true) : isLineBreak c = false := by
  cases hh : isLineBreak c with
  | false => rfl
  | true => have := lb_space hh; rw [(symOkI_facts h).1] at this; cases this

/-- what may follow a symbol -/
def Nx (rest : Str) : Prop := ∀ x r, rest = x :: r → symOkI x = false

theorem nx_nil : Nx [] := by intro x r e; cases e
theorem nx_cons {c : Char} {r : Str} (h : symOkI c = false) : Nx (c :: r) := by
  intro x r' e; cases e; exact h

/-! ### the LNK class -/

theorem mLnkI_span {A B : Str} (rest : Str) (hA : SInt A) (hB : SInt B) :
    mLnkI (A ++ (':' :: (B ++ ('>' :: rest)))) = some ('<' :: (A ++ (':' :: (B ++ ['>']))), rest) := by
  have h1 := sInt_sint (rest := ':' :: (B ++ ('>' :: rest))) hA (noD_cons (by decide))
  have h2 := sInt_sint (rest := '>' :: rest) hB (noD_cons (by decide))
  simp [mLnkI, h1, h2]

theorem digits1_rest {s a rest : Str} (h : digits1 s = some (a, rest)) : rest = s.dropWhile isD := by
  simp only [digits1] at h
  split at h
  · cases h
  · simp only [Option.some.injEq, Prod.mk.injEq] at h
    exact h.2.symm

theorem sInt_rest {s a rest : Str} (h : sInt s = some (a, rest)) :
    rest = s.dropWhile isD ∨ ∃ s', s = '-' :: s' ∧ rest = s'.dropWhile isD := by
  cases s with
  | nil => simp [sInt, optMinus, digits1] at h
  | cons c s' =>
    by_cases hc : c = '-'
    · subst hc
      right
      refine ⟨s', rfl, ?_⟩
      simp only [sInt, optMinus] at h
      cases hd : digits1 s' with
      | none => simp [hd] at h
      | some p =>
        obtain ⟨d, r'⟩ := p
        simp only [hd, Option.some.injEq, Prod.mk.injEq] at h
        rw [← h.2]
        exact digits1_rest hd
    · left
      simp only [sInt, optMinus_ne c s' hc] at h
      cases hd : digits1 (c :: s') with
      | none => simp [hd] at h
      | some p =>
        obtain ⟨d, r'⟩ := p
        simp only [hd, Option.some.injEq, Prod.mk.injEq] at h
        rw [← h.2]
        exact digits1_rest hd

theorem dropD_head (r : Str) : ∀ (sym : Str), (∀ c ∈ sym, c ≠ ':') →
    ∀ r', (sym ++ ',' :: r).dropWhile isD ≠ ':' :: r' := by
  intro sym
  induction sym with
  | nil =>
    intro _ r' e
    have : isD ',' = false := by decide
    simp [this] at e
  | cons c sym ih =>
    intro h r' e
    simp only [List.cons_append, List.dropWhile_cons] at e
    split at e
    · exact ih (fun x hx => h x (by simp [hx])) r' e
    · simp only [List.cons.injEq] at e
      exact h c (by simp) e.1

/-- a symbol followed by a comma is never the inside of an alignment. -/
theorem mLnkI_sym (sym r : Str) (h : ∀ c ∈ sym, symOkI c = true) : mLnkI (sym ++ ',' :: r) = none := by
  have hc : ∀ c ∈ sym, c ≠ ':' := fun c hc => (symOkI_facts (h c hc)).2.2.2.2.2.1
  unfold mLnkI
  split
  · rename_i a r0 heq
    exfalso
    rcases sInt_rest heq with e | ⟨s', e1, e2⟩
    · exact dropD_head r sym hc r0 e.symm
    · cases sym with
      | nil => simp at e1
      | cons c sym' =>
        simp only [List.cons_append, List.cons.injEq] at e1
        rw [← e1.2] at e2
        exact dropD_head r sym' (fun x hx => hc x (by simp [hx])) r0 e2.symm
  · rfl

/-! ### one `finditer` step per token class -/

theorem stepI_blank (r : Str) : stepI ' ' r = .skip r := by
  have h2 : symOkI ' ' = false := by decide
  have h3 : isPySpace ' ' = true := by decide
  simp [stepI, h2, h3]

theorem stepI_symbol (c : Char) (tx rest : Str) (hall : ∀ x ∈ c :: tx, symOkI x = true) (hn : Nx rest) :
    stepI c (tx ++ rest) = .tok (iS (c :: tx)) rest := by
  obtain ⟨h1, h2, h3, h4, h5, h6, h7, h8, h9, h10⟩ := symOkI_facts (hall c (by simp))
  have htw := tw_stop symOkI (c :: tx) rest hall hn
  simp only [List.cons_append] at htw
  simp [stepI, h2, h3, h4, h5, h6, h7, h8, h9, h10, htw.1, htw.2]

theorem stepI_lnk (a b : Int) (rest : Str) :
    stepI '<' (intStr a ++ (':' :: (intStr b ++ ['>'])) ++ rest)
      = .tok (ti .lnk (Lnk.charspan a b).str) rest := by
  have := mLnkI_span rest (sint_intStr a) (sint_intStr b)
  simp only [List.append_assoc, List.cons_append, List.nil_append] at this ⊢
  simp [stepI, this, Lnk.str]

theorem stepI_dq (s rest : Str) :
    stepI '"' (escapeDQ s ++ ('"' :: rest)) = .tok (ti .dq (escapeDQ s)) rest := by
  simp [stepI, scanDQ_escapeDQ]

/-- the key lemma: at the head of `tokTextI t ++ rest` one `finditer` step yields exactly `t`. -/
theorem stepI_tok (t : TI) (rest : Str) (ht : TokOKI t) (hn : t.kind = KI.symbol → Nx rest)
    (hl : t.kind = KI.langle → mLnkI rest = none) :
    ∃ c r, tokTextI t = c :: r ∧ stepI c (r ++ rest) = .tok t rest := by
  obtain ⟨k, tx⟩ := t
  cases k <;> simp only [TokOKI] at ht
  · obtain ⟨a, b, rfl⟩ := ht
    exact ⟨'<', intStr a ++ (':' :: (intStr b ++ ['>'])), by simp [tokTextI, Lnk.str], stepI_lnk a b rest⟩
  · obtain ⟨s, rfl, _⟩ := ht
    exact ⟨'"', escapeDQ s ++ ['"'], rfl, by simpa [ti] using stepI_dq s rest⟩
  · subst ht
    exact ⟨'<', [], rfl, by simp [stepI, hl rfl, iLA, ti]⟩
  · subst ht; exact ⟨'>', [], rfl, by simp [stepI, iRA, ti]⟩
  · subst ht; exact ⟨'{', [], rfl, by simp [stepI, iLB, ti]⟩
  · subst ht; exact ⟨'}', [], rfl, by simp [stepI, iRB, ti]⟩
  · subst ht; exact ⟨'(', [], rfl, by simp [stepI, iLP, ti]⟩
  · subst ht; exact ⟨')', [], rfl, by simp [stepI, iRP, ti]⟩
  · subst ht; exact ⟨',', [], rfl, by simp [stepI, iCM, ti]⟩
  · subst ht; exact ⟨':', [], rfl, by simp [stepI, iCL, ti]⟩
  · obtain ⟨hne, hall⟩ := ht
    cases tx with
    | nil => exact absurd rfl hne
    | cons c tx => exact ⟨c, tx, rfl, stepI_symbol c tx rest hall (hn rfl)⟩

/-! ### the line -/

theorem render_head (u : TI) (rs : List TI) : ∃ X, renderIx (u :: rs) = tokTextI u ++ X := by
  cases rs with
  | nil => exact ⟨[], by simp [renderIx]⟩
  | cons v rs =>
    simp only [renderIx]
    split
    · exact ⟨_, rfl⟩
    · exact ⟨_, rfl⟩

theorem first_nonsym (u : TI) (hu : TokOKI u) (hk : u.kind ≠ KI.symbol) :
    ∃ x r, tokTextI u = x :: r ∧ symOkI x = false := by
  obtain ⟨k, tx⟩ := u
  cases k <;> simp only [TokOKI] at hu
  · obtain ⟨a, b, rfl⟩ := hu
    exact ⟨'<', intStr a ++ ':' :: (intStr b ++ ['>']), by simp [tokTextI, Lnk.str], by decide⟩
  · exact ⟨'"', _, rfl, by decide⟩
  · subst hu; exact ⟨'<', [], rfl, by decide⟩
  · subst hu; exact ⟨'>', [], rfl, by decide⟩
  · subst hu; exact ⟨'{', [], rfl, by decide⟩
  · subst hu; exact ⟨'}', [], rfl, by decide⟩
  · subst hu; exact ⟨'(', [], rfl, by decide⟩
  · subst hu; exact ⟨')', [], rfl, by decide⟩
  · subst hu; exact ⟨',', [], rfl, by decide⟩
  · subst hu; exact ⟨':', [], rfl, by decide⟩
  · exact absurd rfl hk

theorem nx_render (u : TI) (rs : List TI) (hu : TokOKI u) (hk : u.kind ≠ KI.symbol) :
    Nx (renderIx (u :: rs)) := by
  obtain ⟨X, hX⟩ := render_head u rs
  obtain ⟨x, r, hx, hs⟩ := first_nonsym u hu hk
  rw [hX, hx]
  exact nx_cons hs

theorem LaOK_tail (t u : TI) (rs : List TI) (h : LaOK (t :: u :: rs)) : LaOK (u :: rs) := by
  cases rs with
  | nil => exact h.2
  | cons v rs => exact h.2

/-- after an opening bracket the text is a symbol followed by a comma. -/
theorem la_next (t u : TI) (rs : List TI) (hok : ∀ x ∈ t :: u :: rs, TokOKI x) (hla : LaOK (t :: u :: rs))
    (hk : t.kind = KI.langle) : mLnkI (renderIx (u :: rs)) = none := by
  cases rs with
  | nil => exact absurd hk hla.1
  | cons v rs =>
    obtain ⟨hu, hv⟩ := hla.1 hk
    have hu' := hok u (by simp)
    have hv' := hok v (by simp)
    obtain ⟨X, hX⟩ := render_head v rs
    have hr : renderIx (u :: v :: rs) = tokTextI u ++ renderIx (v :: rs) := by
      simp only [renderIx]
      exact if_neg (by rw [hv]; simp)
    simp only [TokOKI, hu] at hu'
    simp only [TokOKI, hv] at hv'
    have h1 : tokTextI u = u.text := by simp [tokTextI, hu]
    have h2 : tokTextI v = [','] := by simp [tokTextI, hv, hv']
    rw [hr, hX, h1, h2]
    exact mLnkI_sym u.text X hu'.2

theorem lexLineI_nil (fuel : Nat) : lexLineI fuel [] = some [] := by
  cases fuel <;> simp [lexLineI]

theorem lexLineI_render : ∀ (ts : List TI), (∀ t ∈ ts, TokOKI t) → LaOK ts →
    ∀ fuel, (renderIx ts).length < fuel → lexLineI fuel (renderIx ts) = some ts
  | [], _, _, fuel, _ => by simp [renderIx, lexLineI_nil]
  | [t], hok, hla, fuel, hf => by
    obtain ⟨c, r, htt, hst⟩ := stepI_tok t [] (hok t (by simp)) (fun _ => nx_nil)
      (fun h => absurd h hla)
    simp only [renderIx, htt] at hf ⊢
    cases fuel with
    | zero => cases hf
    | succ f =>
      simp only [List.append_nil] at hst
      simp [lexLineI, hst, lexLineI_nil]
  | t :: u :: rs, hok, hla, fuel, hf => by
    have hoku : ∀ x ∈ u :: rs, TokOKI x := fun x hx => hok x (by simp [hx])
    have ih := lexLineI_render (u :: rs) hoku (LaOK_tail t u rs hla)
    by_cases hg : t.kind = KI.symbol ∧ u.kind = KI.symbol
    · obtain ⟨c, r, htt, hst⟩ := stepI_tok t (' ' :: renderIx (u :: rs)) (hok t (by simp))
        (fun _ => nx_cons (by decide)) (fun h => by rw [hg.1] at h; cases h)
      have hr : renderIx (t :: u :: rs) = tokTextI t ++ (' ' :: renderIx (u :: rs)) := by
        simp only [renderIx]; exact if_pos hg
      rw [hr] at hf ⊢
      simp only [htt, List.cons_append] at hf ⊢
      cases fuel with
      | zero => cases hf
      | succ f =>
        cases f with
        | zero => simp at hf
        | succ f' =>
          have := ih f' (by simp at hf; omega)
          simp [lexLineI, hst, stepI_blank, this]
    · obtain ⟨c, r, htt, hst⟩ := stepI_tok t (renderIx (u :: rs)) (hok t (by simp))
        (fun h => nx_render u rs (hoku u (by simp)) (fun hu => hg ⟨h, hu⟩))
        (fun h => la_next t u rs hok hla h)
      have hr : renderIx (t :: u :: rs) = tokTextI t ++ renderIx (u :: rs) := by
        simp only [renderIx]; exact if_neg hg
      rw [hr] at hf ⊢
      simp only [htt, List.cons_append] at hf ⊢
      cases fuel with
      | zero => cases hf
      | succ f =>
        have := ih f (by simp at hf; omega)
        simp [lexLineI, hst, this]

/-! ### no line break in the layout -/

theorem lexIx_noLB (s : Str) (h : ∀ c ∈ s, isLineBreak c = false) : lexIx s = lexLineI (s.length + 1) s := by
  unfold lexIx
  rw [splitLines_noLB s h]
  simp only [List.foldr]
  cases lexLineI (s.length + 1) s <;> simp

theorem sint_noLB {A : Str} (hA : SInt A) : ∀ c ∈ A, isLineBreak c = false :=
  fun c hc => cls_noLB (cls_sint hA c hc)

theorem tokTextI_noLB (t : TI) (ht : TokOKI t) : ∀ c ∈ tokTextI t, isLineBreak c = false := by
  obtain ⟨k, tx⟩ := t
  cases k <;> simp only [TokOKI] at ht <;> simp only [tokTextI]
  · obtain ⟨a, b, rfl⟩ := ht
    intro c hc
    simp only [Lnk.str, List.mem_cons, List.mem_append, List.not_mem_nil, or_false] at hc
    rcases hc with ((rfl | hc) | rfl | hc) | rfl
    · decide
    · exact sint_noLB (sint_intStr a) c hc
    · decide
    · exact sint_noLB (sint_intStr b) c hc
    · decide
  · obtain ⟨s, rfl, hs⟩ := ht
    intro c hc
    simp only [List.mem_cons, List.mem_append, List.not_mem_nil, or_false] at hc
    rcases hc with (rfl | hc) | rfl
    · decide
    · rcases mem_escapeDQ hc with rfl | h
      · decide
      · exact hs c h
    · decide
  · subst ht; decide
  · subst ht; decide
  · subst ht; decide
  · subst ht; decide
  · subst ht; decide
  · subst ht; decide
  · subst ht; decide
  · subst ht; decide
  · intro c hc
    exact symOkI_noLB (ht.2 c hc)

theorem renderIx_noLB : ∀ (ts : List TI), (∀ t ∈ ts, TokOKI t) → ∀ c ∈ renderIx ts, isLineBreak c = false
  | [], _, c, hc => by simp [renderIx] at hc
  | [t], hok, c, hc => tokTextI_noLB t (hok t (by simp)) c (by simpa [renderIx] using hc)
  | t :: u :: rs, hok, c, hc => by
    have ih := renderIx_noLB (u :: rs) (fun x hx => hok x (by simp [hx])) c
    have ht := tokTextI_noLB t (hok t (by simp)) c
    simp only [renderIx] at hc
    split at hc
    · rcases List.mem_append.1 hc with h | h
      · exact ht h
      · rcases List.mem_cons.1 h with rfl | h
        · decide
        · exact ih h
    · rcases List.mem_append.1 hc with h | h
      · exact ht h
      · exact ih h

end Verif.C01.IxLexL

namespace Verif.C01.IxLex
open Verif.Codec Verif.Tables Verif.C01 Verif.C01.Ix Verif.C01.IxLexL

/-- the Indexed MRS lexer reads back the un-indented layout of any list of lexically expressible
tokens in which every opening angle bracket is followed by a symbol and a comma. -/
theorem lexIx_renderIx (ts : List TI) (hok : ∀ t ∈ ts, TokOKI t) (hla : LaOK ts) :
    lexIx (renderIx ts) = some ts := by
  rw [lexIx_noLB _ (renderIx_noLB ts hok)]
  exact lexLineI_render ts hok hla _ (Nat.lt_succ_self _)

end Verif.C01.IxLex

namespace Verif.C01.IxLexL
open Verif.Codec Verif.Tables Verif.C01 Verif.C01.Ix Verif.C01.Lex Verif.C01.LexL Verif.C01.IxLex
open Verif.C01.SimpleL (dget_mem mem_ddel)

/-! ### the tokens of the encoder -/

def NoLa (l : List TI) : Prop := ∀ t ∈ l, t.kind ≠ KI.langle

theorem LaOK_noLa : ∀ (l : List TI), NoLa l → LaOK l
  | [], _ => trivial
  | [t], h => h t (by simp)
  | [t, u], h => ⟨h t (by simp), h u (by simp)⟩
  | t :: u :: v :: r, h =>
    ⟨fun e => absurd e (h t (by simp)), LaOK_noLa (u :: v :: r) (fun x hx => h x (by simp [hx]))⟩

theorem LaOK_head (x : Str) (rest : List TI) (h : NoLa rest) : LaOK (iLA :: iS x :: iCM :: rest) := by
  refine ⟨fun _ => ⟨rfl, rfl⟩, LaOK_noLa _ ?_⟩
  intro t ht
  rcases List.mem_cons.mp ht with rfl | ht
  · simp [iS, ti]
  · rcases List.mem_cons.mp ht with rfl | ht
    · simp [iCM, ti]
    · exact h t ht

/-- expressible tokens none of which is an opening angle bracket. -/
def OKN (l : List TI) : Prop := ∀ t ∈ l, TokOKI t ∧ t.kind ≠ KI.langle

theorem OKN_nil : OKN [] := fun _ ht => by cases ht
theorem OKN_cons {t : TI} {l : List TI} (h1 : TokOKI t) (h2 : t.kind ≠ KI.langle) (h : OKN l) : OKN (t :: l) := by
  intro u hu
  rcases List.mem_cons.mp hu with rfl | hu
  · exact ⟨h1, h2⟩
  · exact h u hu
theorem OKN_append {a b : List TI} (ha : OKN a) (hb : OKN b) : OKN (a ++ b) := by
  intro u hu
  rcases List.mem_append.mp hu with hu | hu
  · exact ha u hu
  · exact hb u hu

theorem OKN_iS {s : Str} (h : AtomI s) {l : List TI} (hl : OKN l) : OKN (iS s :: l) :=
  OKN_cons h (by simp [iS, ti]) hl
theorem OKN_iDQ {s : Str} (h : NoBreakI s) {l : List TI} (hl : OKN l) : OKN (iDQ s :: l) :=
  OKN_cons ⟨s, rfl, h⟩ (by simp [iDQ, ti]) hl
theorem OKN_iCM {l : List TI} (hl : OKN l) : OKN (iCM :: l) := OKN_cons rfl (by simp [iCM, ti]) hl
theorem OKN_iCL {l : List TI} (hl : OKN l) : OKN (iCL :: l) := OKN_cons rfl (by simp [iCL, ti]) hl
theorem OKN_iLB {l : List TI} (hl : OKN l) : OKN (iLB :: l) := OKN_cons rfl (by simp [iLB, ti]) hl
theorem OKN_iRB {l : List TI} (hl : OKN l) : OKN (iRB :: l) := OKN_cons rfl (by simp [iRB, ti]) hl
theorem OKN_iLP {l : List TI} (hl : OKN l) : OKN (iLP :: l) := OKN_cons rfl (by simp [iLP, ti]) hl
theorem OKN_iRP {l : List TI} (hl : OKN l) : OKN (iRP :: l) := OKN_cons rfl (by simp [iRP, ti]) hl
theorem OKN_iRA {l : List TI} (hl : OKN l) : OKN (iRA :: l) := OKN_cons rfl (by simp [iRA, ti]) hl

theorem OKN_sepBy : ∀ (xs : List (List TI)), (∀ x ∈ xs, OKN x) → OKN (sepBy iCM xs)
  | [], _ => OKN_nil
  | [x], h => h x (by simp)
  | x :: y :: xs, h =>
    OKN_append (h x (by simp)) (OKN_iCM (OKN_sepBy (y :: xs) (fun z hz => h z (by simp [hz]))))

/-- invariant of the threaded dictionary of property-value lists. -/
def VPI (vp : Dict (List Str)) : Prop := ∀ p ∈ vp, p.2 ≠ [] ∧ ∀ x ∈ p.2, AtomI x

theorem VPI_nil : VPI [] := fun _ hp => by cases hp
theorem VPI_ddel {vp : Dict (List Str)} (h : VPI vp) (v : Str) : VPI (ddel vp v) :=
  fun p hp => h p (mem_ddel vp v p hp)

theorem OKN_vals : ∀ (vals : List Str), (∀ x ∈ vals, AtomI x) → OKN (vals.flatMap (fun x => [iCL, iS x]))
  | [], _ => OKN_nil
  | x :: vals, h => by
    simp only [List.flatMap_cons, List.cons_append, List.nil_append]
    exact OKN_iCL (OKN_iS (h x (by simp)) (OKN_vals vals (fun y hy => h y (by simp [hy]))))

theorem encVarI_ok {vp : Dict (List Str)} {v : Str} (hvp : VPI vp) (hv : AtomI v) :
    OKN (encVarI vp v).1 ∧ VPI (encVarI vp v).2 := by
  unfold encVarI
  cases hd : dget vp v with
  | none => exact ⟨OKN_iS hv OKN_nil, hvp⟩
  | some vals =>
    have hp := hvp _ (dget_mem vp v vals hd)
    refine ⟨OKN_iS hv ?_, VPI_ddel hvp v⟩
    split
    · exact OKN_iCL OKN_nil
    · exact OKN_vals vals hp.2

theorem encArgsI_ok (args : Dict Str) (ha : ∀ a ∈ args, a.1 ≠ CARG → AtomI a.2) :
    ∀ (syn : Synopsis) (vp : Dict (List Str)), VPI vp →
      (∀ x ∈ (encArgsI vp args syn).1, OKN x) ∧ VPI (encArgsI vp args syn).2 := by
  intro syn
  induction syn with
  | nil => intro vp hvp; exact ⟨fun _ hx => (by simp [encArgsI] at hx), hvp⟩
  | cons d ds ih =>
    intro vp hvp
    simp only [encArgsI]
    split
    · exact ih vp hvp
    · rename_i hd
      cases hg : dget args d.name with
      | none => exact ih vp hvp
      | some v =>
        have hv : AtomI v := ha (d.name, v) (dget_mem args d.name v hg) hd
        have h1 := encVarI_ok (v := v) hvp hv
        have h2 := ih _ h1.2
        refine ⟨?_, h2.2⟩
        intro x hx
        rcases List.mem_cons.mp hx with rfl | hx
        · exact h1.1
        · exact h2.1 x hx

structure EPOKI (o : Opts) (e : EP) : Prop where
  pred : AtomI e.pred
  label : AtomI e.label
  vals : ∀ a ∈ e.args, if a.1 = CARG then NoBreakI a.2 else AtomI a.2
  lnk : o.lnk = true → e.lnk = .unspec ∨ ∃ a b, e.lnk = .charspan a b

theorem OKN_lnk (o : Opts) (e : EP) (he : EPOKI o e) :
    OKN (if o.lnk then (if e.lnk.str.isEmpty then [] else [ti .lnk e.lnk.str]) else []) := by
  by_cases ho : o.lnk = true
  · rw [if_pos ho]
    split
    · exact OKN_nil
    · rename_i hne
      rcases he.lnk ho with hl | ⟨a, b, hl⟩
      · rw [hl] at hne; exact absurd rfl hne
      · exact OKN_cons ⟨a, b, by rw [hl]; rfl⟩ (by simp [ti]) OKN_nil
  · rw [if_neg ho]; exact OKN_nil

theorem encRelI_ok (semi : SemI) (o : Opts) {vp vp' : Dict (List Str)} {ep : EP} {ts : List TI}
    (hvp : VPI vp) (he : EPOKI o ep) (h : encRelI semi o vp ep = .ok (ts, vp')) : OKN ts ∧ VPI vp' := by
  unfold encRelI at h
  simp only [bind, Except.bind, pure, Except.pure] at h
  split at h
  · cases h
  · rename_i syn hf
    simp only [Except.ok.injEq, Prod.mk.injEq] at h
    obtain ⟨h1, h2⟩ := h
    have ha := encArgsI_ok ep.args (fun a hm hc => by have := he.vals a hm; simpa [hc] using this) syn vp hvp
    refine ⟨?_, by rw [← h2]; exact ha.2⟩
    rw [← h1]
    simp only [List.cons_append, List.append_assoc]
    refine OKN_iS he.label (OKN_iCL (OKN_iS he.pred (OKN_append (OKN_lnk o ep he)
      (OKN_iLP (OKN_append (OKN_sepBy _ ?_) (OKN_iRP OKN_nil))))))
    intro x hx
    rcases List.mem_append.mp hx with hx | hx
    · exact ha.1 x hx
    · cases hc : dget ep.args CARG with
      | none => rw [hc] at hx; cases hx
      | some c =>
        rw [hc] at hx
        simp only [List.mem_singleton] at hx
        subst hx
        have := he.vals (CARG, c) (dget_mem ep.args CARG c hc)
        simp only [if_true] at this
        exact OKN_iDQ this OKN_nil

theorem encRelsI_ok (semi : SemI) (o : Opts) : ∀ (eps : List EP) (vp vp' : Dict (List Str)) (tks : List (List TI)),
    VPI vp → (∀ e ∈ eps, EPOKI o e) → encRelsI semi o vp eps = .ok (tks, vp') →
    (∀ x ∈ tks, OKN x) ∧ VPI vp' := by
  intro eps
  induction eps with
  | nil =>
    intro vp vp' tks hvp _ h
    simp only [encRelsI, Except.ok.injEq, Prod.mk.injEq] at h
    obtain ⟨rfl, rfl⟩ := h
    exact ⟨fun _ hx => (by cases hx), hvp⟩
  | cons e rest ih =>
    intro vp vp' tks hvp hes h
    simp only [encRelsI, bind, Except.bind] at h
    cases h1 : encRelI semi o vp e with
    | error err => simp [h1] at h
    | ok p =>
      obtain ⟨t, vp1⟩ := p
      have r1 := encRelI_ok semi o hvp (hes e (by simp)) h1
      simp only [h1] at h
      cases h2 : encRelsI semi o vp1 rest with
      | error err => simp [h2] at h
      | ok q =>
        obtain ⟨ts, vp2⟩ := q
        have r2 := ih vp1 vp2 ts r1.2 (fun e' he' => hes e' (by simp [he'])) h2
        simp only [h2, pure, Except.pure, Except.ok.injEq, Prod.mk.injEq] at h
        obtain ⟨rfl, rfl⟩ := h
        refine ⟨?_, r2.2⟩
        intro x hx
        rcases List.mem_cons.mp hx with rfl | hx
        · exact r1.1
        · exact r2.1 x hx

theorem encConsI_ok (cs : List Cons) (h : ∀ c ∈ cs, AtomI c.lhs ∧ AtomI c.rel ∧ AtomI c.rhs) :
    OKN (encConsI cs) := by
  unfold encConsI
  apply OKN_sepBy
  intro x hx
  obtain ⟨c, hc, rfl⟩ := List.mem_map.mp hx
  have := h c hc
  exact OKN_iS this.1 (OKN_iS this.2.1 (OKN_iS this.2.2 OKN_nil))

theorem atomI_None : AtomI (S "None") := by unfold AtomI; decide

theorem bind_ok {ε α β : Type} (x : Except ε α) (f : α → Except ε β) (b : β) (h : x >>= f = .ok b) :
    ∃ a, x = .ok a ∧ f a = .ok b := by
  cases x with
  | error e => cases h
  | ok a => exact ⟨a, rfl, h⟩

theorem jp_ok {ε α β : Type} (c : Prop) [Decidable c] (a : Except ε α) (d : α) (jp : α → Except ε β) (b : β)
    (h : (if c then a >>= jp else pure d >>= jp) = .ok b) :
    ∃ v, (if c then a else .ok d) = .ok v ∧ jp v = .ok b := by
  by_cases hc : c
  · rw [if_pos hc] at h ⊢
    exact bind_ok _ _ _ h
  · rw [if_neg hc] at h ⊢
    exact ⟨d, rfl, h⟩

end Verif.C01.IxLexL

namespace Verif.C01.IxLex
open Verif.Codec Verif.Tables Verif.C01 Verif.C01.Ix Verif.C01.IxLexL

theorem toksIx_ok (semi : SemI) (o : Opts) (m : MRS) (ts : List TI)
    (h : LexExprI semi o m) (ht : toksIx semi o m = .ok ts) : (∀ t ∈ ts, TokOKI t) ∧ LaOK ts := by
  unfold toksIx at ht
  obtain ⟨vp0, hv, ht⟩ := jp_ok _ _ _ _ _ ht
  have hvp0 : VPI vp0 := h.props vp0 hv
  cases hix : m.index with
  | none => rw [hix] at ht; cases ht
  | some ix =>
      rw [hix] at ht
      simp only [] at ht
      have hiv := encVarI_ok hvp0 (h.index ix hix)
      obtain ⟨p, hr, ht⟩ := bind_ok _ _ _ ht
      obtain ⟨rels, vp2⟩ := p
      · simp only [pure, Except.pure, Except.ok.injEq] at ht
        have hrels := encRelsI_ok semi o m.rels _ _ _ hiv.2
          (fun e he => ⟨h.preds e he, h.labels e he, h.vals e he, fun ho => h.eplnk ho e he⟩) hr
        have htop : AtomI (m.top.getD (S "None")) := by
          cases htp : m.top with
          | none => exact atomI_None
          | some t => exact h.top t htp
        have hic : OKN (if m.icons.isEmpty = true then [] else iCM :: iLB :: encConsI m.icons ++ [iRB]) := by
          split
          · exact OKN_nil
          · exact OKN_iCM (OKN_iLB (OKN_append (encConsI_ok _ h.icons) (OKN_iRB OKN_nil)))
        have hrest : OKN ((encVarI vp0 ix).1 ++ iCM :: iLB :: (sepBy iCM rels ++ iRB :: iCM :: iLB ::
            (encConsI m.hcons ++ iRB :: ((if m.icons.isEmpty = true then [] else iCM :: iLB :: encConsI m.icons ++ [iRB])
              ++ [iRA])))) :=
          OKN_append hiv.1 (OKN_iCM (OKN_iLB (OKN_append (OKN_sepBy _ hrels.1) (OKN_iRB (OKN_iCM (OKN_iLB
            (OKN_append (encConsI_ok _ h.hcons) (OKN_iRB (OKN_append hic (OKN_iRA OKN_nil))))))))))
        have e : ts = iLA :: iS (m.top.getD (S "None")) :: iCM :: ((encVarI vp0 ix).1 ++ iCM :: iLB :: (sepBy iCM rels ++ iRB :: iCM :: iLB ::
            (encConsI m.hcons ++ iRB :: ((if m.icons.isEmpty = true then [] else iCM :: iLB :: encConsI m.icons ++ [iRB])
              ++ [iRA])))) := by
          rw [← ht]; simp
        rw [e]
        refine ⟨?_, LaOK_head _ _ (fun t ht => (hrest t ht).2)⟩
        intro t ht
        rcases List.mem_cons.mp ht with rfl | ht
        · rfl
        · exact ((OKN_iS htop (OKN_iCM hrest)) t ht).1

/-- the lexer reads back the un-indented layout of the encoder's tokens. -/
theorem lexIx_toksIx (semi : SemI) (o : Opts) (m : MRS) (ts : List TI)
    (h : LexExprI semi o m) (ht : toksIx semi o m = .ok ts) : lexIx (renderIx ts) = some ts :=
  have := toksIx_ok semi o m ts h ht
  lexIx_renderIx ts this.1 this.2

end Verif.C01.IxLex
