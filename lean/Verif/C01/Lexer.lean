/-
C01 — character-level model of `SimpleMRSLexer` (delphin/codecs/simplemrs.py; delphin/util.py
Lexer.prelex): the eleven token classes tried in the source's order at every position of every
line, `finditer` skipping what no class matches (only blanks and line feeds: every other character
is caught by a class, at the latest by UNEXPECTED, which is an error).

`\d` is modelled for ASCII digits (the generators use no other digits); `\s` is `isPySpace`.
-/
import Verif.C01.Model

namespace Verif.C01.Lex
open Verif.Codec Verif.Tables Verif.C01

def isD (c : Char) : Bool := '0' ≤ c ∧ c ≤ '9'

def digits1 (s : Str) : Option (Str × Str) :=
  let d := s.takeWhile isD
  if d.isEmpty then none else some (d, s.dropWhile isD)

def optMinus (s : Str) : Str × Str :=
  match s with
  | '-' :: r => (['-'], r)
  | _ => ([], s)

/-- `-?\d+`. -/
def sInt (s : Str) : Option (Str × Str) :=
  let (m, r) := optMinus s
  match digits1 r with
  | some (d, r') => some (m ++ d, r')
  | none => none

/-- `(?: +\d+)*>` after the first number of the token alternative; returns the matched text up to
and including `>`. -/
def tokTail : Nat → Str → Option (Str × Str)
  | 0, _ => none
  | fuel + 1, s =>
    match s with
    | '>' :: r => some (['>'], r)
    | ' ' :: _ =>
      let sp := s.takeWhile (· = ' ')
      match digits1 (s.dropWhile (· = ' ')) with
      | some (d, r) => match tokTail fuel r with
        | some (t, r') => some (sp ++ d ++ t, r')
        | none => none
      | none => none
    | _ => none

/-- the LNK class `<(?:-?\d+[:#]-?\d+|@\d+|\d+(?: +\d+)*)>` at a `<` (input: after the `<`);
returns the whole token text and the rest. -/
def mLnk (s : Str) : Option (Str × Str) :=
  let alt1 : Option (Str × Str) :=
    match sInt s with
    | some (a, c :: r) =>
      if c = ':' ∨ c = '#' then
        match sInt r with
        | some (b, '>' :: r') => some ('<' :: a ++ c :: b ++ ['>'], r')
        | _ => none
      else none
    | _ => none
  match alt1 with
  | some x => some x
  | none =>
    match s with
    | '@' :: r =>
      match digits1 r with
      | some (d, '>' :: r') => some ('<' :: '@' :: d ++ ['>'], r')
      | _ => none
    | _ =>
      match digits1 s with
      | some (d, r) => match tokTail (r.length + 1) r with
        | some (t, r') => some ('<' :: d ++ t, r')
        | none => none
      | none => none

/-- the lookahead `[-0-9:#@ ]*>\s` (input: after the `<`). -/
def lnkish (s : Str) : Bool :=
  match s.dropWhile (fun c => c = '-' || isD c || c = ':' || c = '#' || c = '@' || c = ' ') with
  | '>' :: c :: _ => isPySpace c
  | _ => false

/-- `(?:[^…]|<(?![-0-9:#@ ]*>\s))+` with the plain-character class `ok`: the longest such run. -/
def runLt (ok : Char → Bool) : Str → Str × Str
  | [] => ([], [])
  | c :: r =>
    if c = '<' then
      if lnkish r then ([], c :: r)
      else let (a, b) := runLt ok r; (c :: a, b)
    else if ok c then let (a, b) := runLt ok r; (c :: a, b)
    else ([], c :: r)

def posChars : Str := "nvajrscpqxud".toList

def startsWith (p s : Str) : Bool := s.take p.length = p

/-- the PREDICATE class (input: after the leading `_`); whole token text and rest. -/
def mPred (s : Str) : Option (Str × Str) :=
  let lemma_ := s.takeWhile (fun c => !isPySpace c && c ≠ '_')
  if lemma_.isEmpty then none else
  match s.dropWhile (fun c => !isPySpace c && c ≠ '_') with
  | '_' :: p :: r =>
    if !posChars.contains p then none else
    let head := '_' :: lemma_ ++ ['_', p]
    let (sense, r1) : Str × Str :=
      match r with
      | '_' :: r' =>
        let (run, rest) := runLt (fun c => !isPySpace c && c ≠ '_') r'
        if run.isEmpty then ([], r) else ('_' :: run, rest)
      | _ => ([], r)
    if startsWith "_rel".toList r1 then some (head ++ sense ++ "_rel".toList, r1.drop 4)
    else some (head ++ sense, r1)
  | _ => none

def featOk (c : Char) : Bool := !isPySpace c && c ≠ ':' && c ≠ '<' && c ≠ '>' && c ≠ '[' && c ≠ ']'
def sqOk (c : Char) : Bool := c ≠ ' ' && c ≠ '\n' && c ≠ ':' && c ≠ '<' && c ≠ '>' && c ≠ '[' && c ≠ ']'
def symOk (c : Char) : Bool := c ≠ ' ' && c ≠ '\n' && c ≠ ']'

inductive Step where
  | tok (t : T) (rest : Str)
  | skip (rest : Str)
  | unexpected
deriving Repr

/-- one `finditer` step at the head of a non-empty line remainder. -/
def step (c : Char) (r : Str) : Step :=
  if c = '[' then .tok tLB r
  else if c = ']' then .tok tRB r
  else
    match (if c = '<' then mLnk r else none) with
    | some (t, r') => .tok (tk .lnk t) r'
    | none =>
    match (if c = '"' then scanDQ r else none) with
    | some (t, r') => .tok (tk .dq t) r'
    | none =>
    let sq := if c = '\'' then r.takeWhile sqOk else []
    if !sq.isEmpty then .tok (tk .sq sq) (r.dropWhile sqOk)
    else
    match (if c = '_' then mPred r else none) with
    | some (t, r') => .tok (tk .pred t) r'
    | none =>
    if c = '<' then .tok tLA r
    else if c = '>' then .tok tRA r
    else
    let f := (c :: r).takeWhile featOk
    if !f.isEmpty && ((c :: r).dropWhile featOk).head? = some ':' then
      .tok (tF f) (((c :: r).dropWhile featOk).drop 1)
    else
    let (sy, r') := runLt symOk (c :: r)
    if !sy.isEmpty then .tok (tS sy) r'
    else if isPySpace c then .skip r
    else .unexpected

/-- all tokens of one line (`none`: UNEXPECTED, i.e. MRSSyntaxError). -/
def lexLine : Nat → Str → Option (List T)
  | 0, _ => some []
  | _ + 1, [] => some []
  | fuel + 1, c :: r =>
    match step c r with
    | .tok t rest => (lexLine fuel rest).map (t :: ·)
    | .skip rest => lexLine fuel rest
    | .unexpected => none

def isLineBreak (c : Char) : Bool :=
  let n := c.toNat
  n = 10 || n = 13 || n = 11 || n = 12 || n = 28 || n = 29 || n = 30 || n = 0x85 || n = 0x2028 || n = 0x2029

/-- `str.splitlines()` as far as tokenisation is concerned. -/
def splitLines : Str → List Str
  | [] => [[]]
  | c :: r =>
    if isLineBreak c then [] :: splitLines r
    else match splitLines r with
      | [] => [[c]]
      | l :: ls => (c :: l) :: ls

/-- `SimpleMRSLexer.prelex(text.splitlines())`. -/
def lex (s : Str) : Option (List T) :=
  (splitLines s).foldr (fun l acc => match lexLine (l.length + 1) l, acc with
    | some a, some b => some (a ++ b)
    | _, _ => none) (some [])

end Verif.C01.Lex
