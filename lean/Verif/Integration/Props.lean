/-
Integration — composition theorems: the OUTPUT of a conversion satisfies the HYPOTHESES of the target codec's
round-trip theorem, so the pipeline `text → MRS → DMRS/EDS → text → DMRS/EDS (→ MRS)` composes.

Every theorem is a statement about compositions of the existing models (C01 `parse/toks`, C04 `fromMrs/fromDmrs`,
C05 `fromMrs`, C02 / C03 encoders and decoders) through the adapters of `Adapt.lean`; the round-trip theorems of
C01–C04 are USED, not re-proved.  Hypotheses are decidable predicates on the SOURCE MRS only (named in `Adapt.lean`,
C04 and C05); each is shown satisfiable by an `example` on a non-trivial structure.

T1  MRS → DMRS → {SimpleDMRS, DMRX, DMRS-JSON} → DMRS     `mrs_dmrs_*`
T2  MRS → EDS  → {native EDS, EDS-JSON} → EDS             `mrs_eds_*`
T3  SimpleMRS text → … (the composed `convert`)           `convert_*`
T4  … → DMRS → MRS (C04's round trip after the codec)     `mrs_dmrs_*_back`

Conversions can fail (finding F08: `scope.representatives` may leave the top scope without representative and
`from_mrs` raises IndexError): all statements are for the success case `fromMrs m = .ok d`; `mrs_dmrs_pipeline_total`
adds C04's totality theorem.
-/
import Verif.Integration.Adapt
import Verif.Integration.AdaptLemmas
import Verif.Integration.DmrsLemmas
import Verif.Integration.EdsLemmas
import Verif.Integration.ConvLemmas
import Verif.Integration.TransferLemmas
import Verif.C01.Props
import Verif.C02.Props
import Verif.C03.Props
import Verif.C04.Props
import Verif.C04.PropsRT
import Verif.C05.Props

namespace Verif.Integration
open Verif.Codec Verif.Sem

/-! ## T1  MRS → DMRS → text → DMRS -/

/-- the converted graph is a DMRS as its constructor leaves it (no link from the pseudo node 0) and is expressible
in all three DMRS formats — the hypotheses of C02's round-trip theorems — for every MRS `m` of C04's input space
(`BaseIdsDistinct`) whose property maps are dicts and whose strings are what the format needs. -/
theorem mrs_dmrs_expressible (g : GraphInfo) (m : MRS) (hN : C04.BaseIdsDistinct m) (hD : PropsAreDicts m)
    (d : DMRS) (h : C04.fromMrs m = .ok d) :
    (toC02 g d).WF ∧ (SDStrings m → C02.ExpressibleSD (toC02 g d)) ∧
    (XStrings m → C02.ExpressibleX (toC02 g d)) ∧ (JStrings m → C02.ExpressibleJ (toC02 g d)) :=
  ⟨toC02_wf g m hN d h, fun hS => toC02_expressibleSD g m hN hD hS d h,
   fun hS => toC02_expressibleX g m hN hD hS d h, fun hS => toC02_expressibleJ g m hN hD hS d h⟩

/-- **T1, SimpleDMRS** (token level, any options, anything following): decoding the SimpleDMRS encoding of
`dmrs.from_mrs(m)` gives the graph back in C02's view `viewS` (suppressed information removed; node surface/base
strings are not part of the format; a node type `u` is not written — finding F11). -/
theorem mrs_dmrs_simpledmrs_roundtrip (o : C02.Opts) (g : GraphInfo) (m : MRS) (hN : C04.BaseIdsDistinct m)
    (hD : PropsAreDicts m) (hS : SDStrings m) (d : DMRS) (h : C04.fromMrs m = .ok d) (rest : List C02.T) :
    C02.decDmrs (C02.encDmrsToks o (toC02 g d) ++ rest) = .ok (C02.viewS o (toC02 g d), rest) :=
  C02.simpledmrs_roundtrip_view o _ (toC02_wf g m hN d h) (toC02_expressibleSD g m hN hD hS d h) rest

-- FULL STATEMENT (not true, F11): the next theorem without `NoUSort m`; counter-example `mrs_dmrs_simpledmrs_cex_u`.
/-- **T1, SimpleDMRS, what the property promises** (`keptS`: every listed field unchanged): needs `NoUSort m` — no
non-quantifier predication has an intrinsic variable of sort `u` or none at all — exactly the source class of F11. -/
theorem mrs_dmrs_simpledmrs_roundtrip_partial (o : C02.Opts) (g : GraphInfo) (m : MRS)
    (hN : C04.BaseIdsDistinct m) (hD : PropsAreDicts m) (hS : SDStrings m) (hU : NoUSort m) (d : DMRS)
    (h : C04.fromMrs m = .ok d) (rest : List C02.T) :
    C02.decDmrs (C02.encDmrsToks o (toC02 g d) ++ rest) = .ok (C02.keptS o (toC02 g d), rest) :=
  C02.simpledmrs_roundtrip_partial o _ (toC02_wf g m hN d h) (toC02_expressibleSD g m hN hD hS d h)
    (toC02_noTypeU g m hN hU d h) rest

/-- … and with everything printed the decoded graph IS the converted graph when no predication carries a surface
string or base form (which SimpleDMRS does not write). -/
theorem mrs_dmrs_simpledmrs_identity (g : GraphInfo) (hg : g.lnk = .unspec ∨ g.lnk.truthy = true) (m : MRS)
    (hN : C04.BaseIdsDistinct m) (hD : PropsAreDicts m) (hS : SDStrings m) (hU : NoUSort m)
    (hB : NoSurfaceBase m) (d : DMRS) (h : C04.fromMrs m = .ok d) (rest : List C02.T) :
    C02.decDmrs (C02.encDmrsToks ⟨true, true⟩ (toC02 g d) ++ rest) = .ok (toC02 g d, rest) := by
  rw [mrs_dmrs_simpledmrs_roundtrip_partial ⟨true, true⟩ g m hN hD hS hU d h rest,
    keptS_toC02 g hg m hN hB d h]

/-- the source class of F11: one predication whose intrinsic variable has the sort `u` -/
def uSortMrs : MRS :=
  { top := some ⟨"h", 0⟩, index := some ⟨"u", 2⟩,
    rels := [{ predicate := "_x_n_1", label := ⟨"h", 1⟩, args := [("ARG0", ⟨"u", 2⟩)] }],
    hcons := [⟨⟨"h", 0⟩, "qeq", ⟨"h", 1⟩⟩] }

/-- node types before and after the SimpleDMRS round trip of the converted graph -/
def typesAroundSD (m : MRS) : Option (List (Option Str) × List (Option Str)) :=
  match C04.fromMrs m with
  | .ok d =>
    match C02.decDmrs (C02.encDmrsToks ⟨true, true⟩ (toC02 {} d)) with
    | .ok (d', _) => some ((toC02 {} d).nodes.map (·.type), d'.nodes.map (·.type))
    | .error _ => none
  | .error _ => none

/-- F11 through the pipeline: `uSortMrs` is inside every other hypothesis of T1, converts, and the node type `u`
of `from_mrs` is lost by the SimpleDMRS round trip. -/
theorem mrs_dmrs_simpledmrs_cex_u :
    C04.BaseIdsDistinct uSortMrs ∧ PropsAreDicts uSortMrs ∧ SDStrings uSortMrs ∧ ¬ NoUSort uSortMrs ∧
    typesAroundSD uSortMrs = some ([some "u".toList], [none]) :=
  ⟨by decide, by decide, by decide, by decide, by decide⟩

/-- **T1, DMRX** (ElementTree level; `xml.etree` is C02's parameter): the tree written for `dmrs.from_mrs(m)` reads
back as C02's view `viewX` (a missing alignment comes back as `<-1:-1>`). -/
theorem mrs_dmrs_dmrx_roundtrip (o : C02.Opts) (g : GraphInfo) (m : MRS) (hN : C04.BaseIdsDistinct m)
    (hD : PropsAreDicts m) (hS : XStrings m) (d : DMRS) (h : C04.fromMrs m = .ok d) :
    ∃ x, C02.toXml o (toC02 g d) = .ok x ∧ C02.ofXml x = .ok (C02.viewX o (toC02 g d)) :=
  C02.dmrx_roundtrip o _ (toC02_wf g m hN d h) (toC02_expressibleX g m hN hD hS d h)

/-- … which is the converted graph itself when every predication (and the graph) is aligned. -/
theorem mrs_dmrs_dmrx_identity (g : GraphInfo) (hg : ∃ a b, g.lnk = .charspan a b) (m : MRS)
    (hN : C04.BaseIdsDistinct m) (hD : PropsAreDicts m) (hS : XStrings m) (hA : AllAligned m) (d : DMRS)
    (h : C04.fromMrs m = .ok d) :
    ∃ x, C02.toXml ⟨true, true⟩ (toC02 g d) = .ok x ∧ C02.ofXml x = .ok (toC02 g d) := by
  obtain ⟨x, h1, h2⟩ := mrs_dmrs_dmrx_roundtrip ⟨true, true⟩ g m hN hD hS d h
  exact ⟨x, h1, by rw [h2, viewX_toC02 g hg m hN hA d h]⟩

/-- **T1, DMRS-JSON** (dictionary level; `json` is C02's parameter): the dictionary written for `dmrs.from_mrs(m)`
reads back as C02's view `viewJ`. -/
theorem mrs_dmrs_dmrsjson_roundtrip (o : C02.Opts) (g : GraphInfo) (m : MRS) (hN : C04.BaseIdsDistinct m)
    (hD : PropsAreDicts m) (hS : JStrings m) (d : DMRS) (h : C04.fromMrs m = .ok d) :
    C02.fromDict (C02.toDict o (toC02 g d)) = .ok (C02.viewJ o (toC02 g d)) :=
  C02.dmrsjson_roundtrip o _ (toC02_wf g m hN d h) (toC02_expressibleJ g m hN hD hS d h)

/-- … which is the converted graph itself when no alignment is the "false" `<-1:-1>`. -/
theorem mrs_dmrs_dmrsjson_identity (g : GraphInfo)
    (hg : g.lnk = .unspec ∨ ∃ a b, g.lnk = .charspan a b ∧ ¬ (a = -1 ∧ b = -1)) (m : MRS)
    (hN : C04.BaseIdsDistinct m) (hD : PropsAreDicts m) (hS : JStrings m) (hL : LnkTruthy m) (d : DMRS)
    (h : C04.fromMrs m = .ok d) :
    C02.fromDict (C02.toDict ⟨true, true⟩ (toC02 g d)) = .ok (toC02 g d) := by
  rw [mrs_dmrs_dmrsjson_roundtrip ⟨true, true⟩ g m hN hD hS d h, viewJ_toC02 g hg m hN hL d h]

/-! ### the string hypotheses are needed (concrete witnesses, `decide`-checked) -/

/-- one predication `pred` with the event variable `e2` carrying the properties `ps` -/
def onePred (pred : String) (ps : Sem.Props) : MRS :=
  { top := some ⟨"h", 0⟩, index := some ⟨"e", 2⟩,
    rels := [{ predicate := pred, label := ⟨"h", 1⟩, args := [("ARG0", ⟨"e", 2⟩)] }],
    hcons := [⟨⟨"h", 0⟩, "qeq", ⟨"h", 1⟩⟩], variables := [(⟨"e", 2⟩, ps)] }

/-- (predicate, properties) of the nodes of `from_mrs(m)` before and after a codec round trip -/
def nodesAround (f : C02.DMRS → Except C02.Err C02.DMRS) (m : MRS) :
    Option (List (String × Sem.Props) × List (String × Sem.Props)) :=
  match C04.fromMrs m with
  | .ok d =>
    match f (toC02 {} d) with
    | .ok d' => some (d.nodes.map (fun n => (n.predicate, n.properties)),
                      (ofC02 d').nodes.map (fun n => (n.predicate, n.properties)))
    | .error _ => none
  | .error _ => none

def viaSD (c : C02.DMRS) : Except C02.Err C02.DMRS :=
  match C02.decDmrs (C02.encDmrsToks ⟨true, true⟩ c) with
  | .ok p => .ok p.1
  | .error e => .error e

def viaX (c : C02.DMRS) : Except C02.Err C02.DMRS :=
  match C02.toXml ⟨true, true⟩ c with
  | .ok x => C02.ofXml x
  | .error e => .error e

def viaJ (c : C02.DMRS) : Except C02.Err C02.DMRS := C02.fromDict (C02.toDict ⟨true, true⟩ c)

/-- each string hypothesis of T1 excludes a real loss: a lower-case property name comes back upper-cased from
SimpleDMRS (`SDStrings`), a predicate with a capital comes back lower-cased from DMRX (`XStrings`), a property named
`cvarsort` is overwritten by the node type in DMRS-JSON (`JStrings`). -/
theorem string_hypotheses_needed :
    (¬ SDStrings (onePred "_rain_v_1" [("tense", "past")]) ∧
      nodesAround viaSD (onePred "_rain_v_1" [("tense", "past")]) =
        some ([("_rain_v_1", [("tense", "past")])], [("_rain_v_1", [("TENSE", "past")])])) ∧
    (¬ XStrings (onePred "_Rain_v_1" []) ∧
      nodesAround viaX (onePred "_Rain_v_1" []) = some ([("_Rain_v_1", [])], [("_rain_v_1", [])])) ∧
    (¬ JStrings (onePred "_rain_v_1" [("cvarsort", "x")]) ∧
      nodesAround viaJ (onePred "_rain_v_1" [("cvarsort", "x")]) =
        some ([("_rain_v_1", [("cvarsort", "x")])], [("_rain_v_1", [])])) :=
  ⟨⟨by decide, by decide⟩, ⟨by decide, by decide⟩, ⟨by decide, by decide⟩⟩

/-- with C04's totality theorem: when the scope the top selects has a representative (the negation is the input class
of F08) the conversion succeeds and all three codecs round-trip its result. -/
theorem mrs_dmrs_pipeline_total (o : C02.Opts) (g : GraphInfo) (m : MRS) (hN : C04.BaseIdsDistinct m)
    (hTop : ∀ reps t, m.representatives = .ok reps → m.top = some t →
      dlookup ((m.hcmap t).getD t) reps ≠ some [])
    (hD : PropsAreDicts m) (hS : SDStrings m) (hX : XStrings m) (hJ : JStrings m) :
    ∃ d, C04.fromMrs m = .ok d ∧
      C02.decDmrs (C02.encDmrsToks o (toC02 g d)) = .ok (C02.viewS o (toC02 g d), []) ∧
      (∃ x, C02.toXml o (toC02 g d) = .ok x ∧ C02.ofXml x = .ok (C02.viewX o (toC02 g d))) ∧
      C02.fromDict (C02.toDict o (toC02 g d)) = .ok (C02.viewJ o (toC02 g d)) := by
  obtain ⟨d, h⟩ := C04.fromMrs_total_partial m hN hTop
  refine ⟨d, h, ?_, mrs_dmrs_dmrx_roundtrip o g m hN hD hX d h, mrs_dmrs_dmrsjson_roundtrip o g m hN hD hJ d h⟩
  have := mrs_dmrs_simpledmrs_roundtrip o g m hN hD hS d h []
  simpa using this

/-- the hypotheses of T1 are satisfiable together: "the dog barks" with alignments and a tensed event -/
def dogBarksL : MRS :=
  { top := some ⟨"h", 0⟩, index := some ⟨"e", 2⟩,
    rels := [ { predicate := "_the_q", label := ⟨"h", 4⟩, lnk := some (0, 3),
                args := [("ARG0", ⟨"x", 3⟩), ("RSTR", ⟨"h", 5⟩), ("BODY", ⟨"h", 6⟩)] },
              { predicate := "_dog_n_1", label := ⟨"h", 7⟩, lnk := some (4, 7), args := [("ARG0", ⟨"x", 3⟩)] },
              { predicate := "_bark_v_1", label := ⟨"h", 1⟩, lnk := some (8, 13),
                args := [("ARG0", ⟨"e", 2⟩), ("ARG1", ⟨"x", 3⟩)] } ],
    hcons := [⟨⟨"h", 0⟩, "qeq", ⟨"h", 1⟩⟩, ⟨⟨"h", 5⟩, "qeq", ⟨"h", 7⟩⟩],
    variables := [(⟨"e", 2⟩, [("SF", "prop"), ("TENSE", "pres")]), (⟨"x", 3⟩, [("NUM", "sg"), ("PERS", "3")])] }

example : C04.BaseIdsDistinct dogBarksL ∧ PropsAreDicts dogBarksL ∧ SDStrings dogBarksL ∧ XStrings dogBarksL ∧
    JStrings dogBarksL ∧ NoUSort dogBarksL ∧ NoSurfaceBase dogBarksL ∧ LnkTruthy dogBarksL ∧
    AllAligned dogBarksL ∧ VarsPlain dogBarksL ∧ NoCargRole dogBarksL ∧ IVsPlain dogBarksL ∧
    (C04.fromMrs dogBarksL).map (fun d => (d.top, d.links)) =
      .ok (some 10002, [⟨10000, 10001, "RSTR", "H"⟩, ⟨10002, 10001, "ARG1", "NEQ"⟩]) :=
  ⟨by decide, by decide, by decide, by decide, by decide, by decide, by decide, by decide, by decide, by decide,
   by decide, by decide, by rfl⟩

/-! ## T2  MRS → EDS → text → EDS -/

/-- the converted graph satisfies the hypotheses of C03's theorems: `Expressible`, no untyped node with properties
(F38 never bites: the only untyped nodes `from_mrs` makes are quantifiers, which get no properties), every edge
target is a node (so `encode` does not raise), and — for plainly spelled intrinsic variables — distinct identifiers. -/
theorem mrs_eds_expressible (pm : C05.PM) (uniq : Bool) (m : MRS) (hiv : m.hasIVProperty = true)
    (hnr : C05.NoReserved m) (hx : C05.ExpressibleM m) (hpm : pm = .off ∨ pm = .std)
    (ident : Option Str) (hid : ident ≠ some []) (e : C05.EDS) (w : List C05.Warn)
    (h : C05.fromMrs pm uniq m = .ok (e, w)) :
    C03.Expressible (toC03 ident e) ∧ C03.NoUntypedProps (toC03 ident e) ∧
    (toC03 ident e).targetsOk = true ∧ (IVsPlain m → (toC03 ident e).ids.Nodup) := by
  have hE := C05.fromMrs_expressible pm uniq m hiv hnr hx hpm e w h
  exact ⟨toC03_expressible ident hid e hE, toC03_noUntypedProps ident e hE, toC03_targetsOk ident e hE,
    fun hp => toC03_ids_nodup ident e hE (fromMrs_ids_plain pm uniq m hiv hnr hp e w h)⟩

/-- the hypotheses of T2 are satisfiable: `dogBarksL` has the intrinsic-variable property, no reserved sorts, is
expressible in C05's sense, has plainly spelled intrinsic variables, and converts with the LKB-style identifiers. -/
example : dogBarksL.hasIVProperty = true ∧ dogBarksL.isWellFormed = true ∧ C05.NoReserved dogBarksL ∧
    C05.ExpressibleM dogBarksL ∧ IVsPlain dogBarksL ∧
    (C05.fromMrs .std true dogBarksL).map (fun r => r.1.nodes.map (fun n => varStr n.id)) =
      .ok ["_1".toList, "x3".toList, "e2".toList] := by
  have hnr : C05.NoReserved dogBarksL := by
    intro ep hep v hv
    simp only [dogBarksL, List.mem_cons, List.not_mem_nil, or_false] at hep
    rcases hep with rfl | rfl | rfl <;>
      (simp only [EP.iv, dlookup, INTRINSIC_ROLE] at hv; simp at hv; subst hv; decide)
  refine ⟨by decide, by decide, hnr, ⟨by decide, by decide, by decide, by decide, ?_⟩, by decide, by decide⟩
  intro ep hep v hv
  exact fun h0 => by
    simp only [dogBarksL, List.mem_cons, List.not_mem_nil, or_false] at hep
    rcases hep with rfl | rfl | rfl <;>
      (simp only [EP.iv, dlookup, INTRINSIC_ROLE] at hv; simp at hv; subst hv; revert h0; decide)

/-- **T2, native EDS** (token level, every option vector, anything following): the encoder does not raise and the
decoder reads `eds.from_mrs(m)` back as C03's view `viewE`. -/
theorem mrs_eds_native_roundtrip (pm : C05.PM) (uniq : Bool) (m : MRS) (hiv : m.hasIVProperty = true)
    (hnr : C05.NoReserved m) (hx : C05.ExpressibleM m) (hpm : pm = .off ∨ pm = .std)
    (ident : Option Str) (hid : ident ≠ some []) (o : C03.Opts) (e : C05.EDS) (w : List C05.Warn)
    (h : C05.fromMrs pm uniq m = .ok (e, w)) (rest : List C03.Token) :
    C03.encode o (toC03 ident e) = .ok (C03.textE o (toC03 ident e)) ∧
    C03.decodeEds (C03.toksE o (toC03 ident e) ++ rest) = .ok (C03.viewE o (toC03 ident e), rest) := by
  obtain ⟨hE, _, hT, _⟩ := mrs_eds_expressible pm uniq m hiv hnr hx hpm ident hid e w h
  refine ⟨?_, C03.native_roundtrip o _ hE rest⟩
  unfold C03.encode
  simp [hT]

/-- **T2, native EDS, the property's main clause** with all information printed: same top and identifier and, node by
node, the same identifier, predicate, type, properties, constant, alignment and edges.  C03's hypothesis "no untyped
node has properties" (F38) is discharged: it holds for EVERY output of `eds.from_mrs`. -/
theorem mrs_eds_native_same (pm : C05.PM) (uniq : Bool) (m : MRS) (hiv : m.hasIVProperty = true)
    (hnr : C05.NoReserved m) (hx : C05.ExpressibleM m) (hpm : pm = .off ∨ pm = .std)
    (ident : Option Str) (hid : ident ≠ some []) (s i : Bool) (e : C05.EDS) (w : List C05.Warn)
    (h : C05.fromMrs pm uniq m = .ok (e, w)) (rest : List C03.Token) :
    ∃ d, C03.decodeEds (C03.toksE ⟨true, true, s, i⟩ (toC03 ident e) ++ rest) = .ok (d, rest)
      ∧ d.top = (toC03 ident e).top ∧ d.identifier = (toC03 ident e).identifier
      ∧ ∃ f : C03.Node → C03.Node, d.nodes = (toC03 ident e).nodes.map f ∧
          ∀ n ∈ (toC03 ident e).nodes, C03.SameNode n (f n) := by
  obtain ⟨hE, hU, _, _⟩ := mrs_eds_expressible pm uniq m hiv hnr hx hpm ident hid e w h
  exact C03.native_roundtrip_partial s i _ hE hU rest

/-- **T2, EDS-JSON** (dictionary level): through `to_dict` / `from_dict` the converted graph comes back with the same
top and the nodes of the JSON view, stably ordered by span — C03's hypothesis "identifiers pairwise distinct" follows
from C05's identifier theorem and the injectivity of the spelling of variables. -/
theorem mrs_eds_json_roundtrip (pm : C05.PM) (uniq : Bool) (m : MRS) (hiv : m.hasIVProperty = true)
    (hnr : C05.NoReserved m) (hx : C05.ExpressibleM m) (hpm : pm = .off ∨ pm = .std) (hp : IVsPlain m)
    (ident : Option Str) (hid : ident ≠ some []) (p l : Bool) (e : C05.EDS) (w : List C05.Warn)
    (h : C05.fromMrs pm uniq m = .ok (e, w)) :
    C03.fromDict (C03.toDict p l (toC03 ident e))
      = { top := (toC03 ident e).top,
          nodes := C03.sortStable C03.spanLt ((toC03 ident e).nodes.map (C03.viewJNode p l)),
          identifier := none } := by
  obtain ⟨_, _, _, hI⟩ := mrs_eds_expressible pm uniq m hiv hnr hx hpm ident hid e w h
  exact C03.json_roundtrip p l _ (hI hp)

/-- with C05's totality theorem: a well-formed MRS without reserved sorts in which every selected scope has a
representative (`HasReps`, forced by F08) converts, and both EDS codecs round-trip the result. -/
theorem mrs_eds_pipeline_total (pm : C05.PM) (uniq : Bool) (m : MRS) (hwf : m.isWellFormed = true)
    (hiv : m.hasIVProperty = true) (hnr : C05.NoReserved m) (hhr : C05.HasReps m) (hx : C05.ExpressibleM m)
    (hpm : pm = .off ∨ pm = .std) (hp : IVsPlain m) (ident : Option Str) (hid : ident ≠ some [])
    (o : C03.Opts) :
    ∃ e, C05.fromMrs pm uniq m = .ok (e, []) ∧
      C03.decodeEds (C03.toksE o (toC03 ident e)) = .ok (C03.viewE o (toC03 ident e), []) ∧
      (C03.fromDict (C03.toDict o.properties o.lnk (toC03 ident e))).top = (toC03 ident e).top := by
  obtain ⟨e, he⟩ := C05.fromMrs_total pm uniq m hwf hnr hhr hpm
  refine ⟨e, he, ?_, ?_⟩
  · have := (mrs_eds_native_roundtrip pm uniq m hiv hnr hx hpm ident hid o e [] he []).2
    simpa using this
  · rw [mrs_eds_json_roundtrip pm uniq m hiv hnr hx hpm hp ident hid o.properties o.lnk e [] he]

/-! ## T3  SimpleMRS text → MRS → DMRS / EDS → text: the composed `convert`

`convSD`, `convX`, `convJ`, `convE`, `convEJ` (Adapt.lean) are the model of
`commands.convert(text, 'simplemrs', T)` for one item: `source_codec.decode` (C01 `parse`), the converter
(C04 / C05 through the adapters) and `target_codec.encode` (C02 / C03).  Level: the SimpleMRS TOKEN list (C01's
text-level theorem `simplemrs_text_roundtrip` lifts the source side to characters for the single-line layout).
The source is the encoder's own output for a C01 structure `m1`; by C01's round trip the decoder returns
`decodedS o1 m1` (arguments in `role_priority` order, variables rebuilt from the mentions), so the converters run on
`m` with `toSem (decodedS o1 m1) = some m` — a computable function of the source `m1`; the hypotheses of T1/T2 are
asked of that `m`. -/

/-- **T3, one item, every DMRS target**: converting the encoded `m1` equals the target encoder applied to the
conversion of the decoded structure. -/
theorem convert_simplemrs_dmrs (o1 : C01.Opts) (o : C02.Opts) (m1 : C01.MRS) (he : C01.ExprS m1) (m : MRS)
    (hm : toSem (C01.decodedS o1 m1) = some m) (d : DMRS) (hd : C04.fromMrs m = .ok d) :
    convSD o (C01.toks o1 m1) = .ok (C02.encDmrsToks o (toC02 (graphInfoOf (C01.decodedS o1 m1)) d)) ∧
    convSDText o none (C01.toks o1 m1) =
      .ok (C02.encDmrsText o none (toC02 (graphInfoOf (C01.decodedS o1 m1)) d)) ∧
    convX o (C01.toks o1 m1) = liftX (C02.toXml o (toC02 (graphInfoOf (C01.decodedS o1 m1)) d)) ∧
    convJ o (C01.toks o1 m1) = .ok (C02.toDict o (toC02 (graphInfoOf (C01.decodedS o1 m1)) d)) := by
  unfold convSD convSDText convX convJ
  rw [readItem_toks o1 m1 he]
  simp only [bindP, mrsToDmrs_eq _ m hm d hd, and_self]

/-- **T3, one item, every EDS target**. -/
theorem convert_simplemrs_eds (o1 : C01.Opts) (pm : C05.PM) (o : C03.Opts) (m1 : C01.MRS)
    (he : C01.ExprS m1) (m : MRS) (hm : toSem (C01.decodedS o1 m1) = some m) (e : C05.EDS)
    (w : List C05.Warn) (hd : C05.fromMrs pm true m = .ok (e, w)) :
    convE pm o (C01.toks o1 m1) = .ok (C03.toksE o (toC03 (C01.decodedS o1 m1).ident e)) ∧
    convEText pm o (C01.toks o1 m1) = liftE (C03.encode o (toC03 (C01.decodedS o1 m1).ident e)) ∧
    convEJ pm o.properties o.lnk (C01.toks o1 m1) =
      .ok (C03.toDict o.properties o.lnk (toC03 (C01.decodedS o1 m1).ident e)) := by
  unfold convE convEText convEJ
  rw [readItem_toks o1 m1 he]
  simp only [bindP, mrsToEds_eq pm _ m hm e w hd, and_self]

/-- **T3 at the character level of the source and of the target text** (single-line layouts): lexing the SimpleMRS
TEXT of `m1` with C01's model of the regex lexer and running the composed `convert` gives the SimpleDMRS text /
the native EDS text of the conversion. -/
theorem convert_simplemrs_text (o1 : C01.Opts) (o : C02.Opts) (pm : C05.PM) (o3 : C03.Opts) (m1 : C01.MRS)
    (hl : C01.Lex.LexExprS m1) (he : C01.ExprS m1) (m : MRS) (hm : toSem (C01.decodedS o1 m1) = some m) :
    (∀ d, C04.fromMrs m = .ok d →
      (C01.Lex.lex (C01.Lex.render (C01.toks o1 m1))).map (convSDText o none) =
        some (.ok (C02.encDmrsText o none (toC02 (graphInfoOf (C01.decodedS o1 m1)) d)))) ∧
    (∀ e w, C05.fromMrs pm true m = .ok (e, w) →
      (C01.Lex.lex (C01.Lex.render (C01.toks o1 m1))).map (convEText pm o3) =
        some (liftE (C03.encode o3 (toC03 (C01.decodedS o1 m1).ident e)))) := by
  rw [C01.P.simplemrs_lex_render o1 m1 hl]
  refine ⟨fun d hd => ?_, fun e w hd => ?_⟩
  · rw [Option.map_some, (convert_simplemrs_dmrs o1 o m1 he m hm d hd).2.1]
  · rw [Option.map_some, (convert_simplemrs_eds o1 pm o3 m1 he m hm e w hd).2.1]

/-- **T3 ∘ T1**: what `convert` writes is read back by the target decoder as the conversion of the decoded source —
`decode_T (convert (encode_simplemrs m1)) = view_T (from_mrs (decode_simplemrs (encode_simplemrs m1)))` for
T = SimpleDMRS, DMRX, DMRS-JSON. -/
theorem convert_simplemrs_dmrs_reads_back (o1 : C01.Opts) (o : C02.Opts) (m1 : C01.MRS) (he : C01.ExprS m1)
    (m : MRS) (hm : toSem (C01.decodedS o1 m1) = some m) (hN : C04.BaseIdsDistinct m)
    (hD : PropsAreDicts m) (d : DMRS) (hd : C04.fromMrs m = .ok d) (rest : List C02.T) :
    (SDStrings m → ∃ ts, convSD o (C01.toks o1 m1) = .ok ts ∧
      C02.decDmrs (ts ++ rest) = .ok (C02.viewS o (toC02 (graphInfoOf (C01.decodedS o1 m1)) d), rest)) ∧
    (XStrings m → ∃ x, convX o (C01.toks o1 m1) = .ok x ∧
      C02.ofXml x = .ok (C02.viewX o (toC02 (graphInfoOf (C01.decodedS o1 m1)) d))) ∧
    (JStrings m → ∃ j, convJ o (C01.toks o1 m1) = .ok j ∧
      C02.fromDict j = .ok (C02.viewJ o (toC02 (graphInfoOf (C01.decodedS o1 m1)) d))) := by
  obtain ⟨h1, _, h3, h4⟩ := convert_simplemrs_dmrs o1 o m1 he m hm d hd
  refine ⟨fun hS => ⟨_, h1, mrs_dmrs_simpledmrs_roundtrip o _ m hN hD hS d hd rest⟩, fun hS => ?_,
    fun hS => ⟨_, h4, mrs_dmrs_dmrsjson_roundtrip o _ m hN hD hS d hd⟩⟩
  obtain ⟨x, hx1, hx2⟩ := mrs_dmrs_dmrx_roundtrip o (graphInfoOf (C01.decodedS o1 m1)) m hN hD hS d hd
  exact ⟨x, by rw [h3, hx1]; rfl, hx2⟩

/-- **T3 ∘ T2**: the same for the EDS targets (the source's identifier must not be the empty string, which the
native format cannot write). -/
theorem convert_simplemrs_eds_reads_back (o1 : C01.Opts) (pm : C05.PM) (o : C03.Opts) (m1 : C01.MRS)
    (he : C01.ExprS m1) (m : MRS) (hm : toSem (C01.decodedS o1 m1) = some m)
    (hiv : m.hasIVProperty = true) (hnr : C05.NoReserved m) (hx : C05.ExpressibleM m)
    (hpm : pm = .off ∨ pm = .std) (hid : (C01.decodedS o1 m1).ident ≠ some []) (e : C05.EDS)
    (w : List C05.Warn) (hd : C05.fromMrs pm true m = .ok (e, w)) (rest : List C03.Token) :
    (∃ ts, convE pm o (C01.toks o1 m1) = .ok ts ∧
      C03.decodeEds (ts ++ rest) = .ok (C03.viewE o (toC03 (C01.decodedS o1 m1).ident e), rest)) ∧
    (∃ t, convEText pm o (C01.toks o1 m1) = .ok t ∧ t = C03.textE o (toC03 (C01.decodedS o1 m1).ident e)) ∧
    (IVsPlain m → ∃ j, convEJ pm o.properties o.lnk (C01.toks o1 m1) = .ok j ∧
      (C03.fromDict j).top = (toC03 (C01.decodedS o1 m1).ident e).top ∧
      (C03.fromDict j).nodes = C03.sortStable C03.spanLt
        ((toC03 (C01.decodedS o1 m1).ident e).nodes.map (C03.viewJNode o.properties o.lnk))) := by
  obtain ⟨h1, h2, h3⟩ := convert_simplemrs_eds o1 pm o m1 he m hm e w hd
  obtain ⟨henc, hdec⟩ := mrs_eds_native_roundtrip pm true m hiv hnr hx hpm _ hid o e w hd rest
  refine ⟨⟨_, h1, hdec⟩, ⟨_, by rw [h2, henc]; rfl, rfl⟩, fun hp => ⟨_, h3, ?_⟩⟩
  rw [mrs_eds_json_roundtrip pm true m hiv hnr hx hpm hp _ hid o.properties o.lnk e w hd]
  exact ⟨rfl, rfl⟩

/-- **T3 with hypotheses on the SOURCE only** (DMRS targets).  For a shared-core MRS `m0` that SimpleMRS can express
(`SrcOK`: plainly spelled lower-case variables, normalised predicates, distinct upper-case roles, property maps that
are dicts with upper-case names and lower-case values) inside C04's input space: the SimpleMRS decoder returns, for
the encoding of `m0`, an MRS `m` that is `m0` up to the order of arguments inside predications and rebuilt property
maps (`MRSSim`); every hypothesis of T1 on `m0` is inherited by `m`; so `convert` of the encoded `m0` writes the
encoding of `from_mrs(m)`, and the target decoder reads it back. -/
theorem convert_shared_core_dmrs (o1 : C01.Opts) (o : C02.Opts) (g : GraphInfo) (m0 : MRS) (h : SrcOK m0)
    (hN : C04.BaseIdsDistinct m0) :
    ∃ m, toSem (C01.decodedS o1 (ofSem g m0)) = some m ∧ MRSSim m0 m ∧ C04.BaseIdsDistinct m ∧
      ∀ d, C04.fromMrs m = .ok d →
        (convSD o (C01.toks o1 (ofSem g m0)) =
            .ok (C02.encDmrsToks o (toC02 (graphInfoOf (C01.decodedS o1 (ofSem g m0))) d))) ∧
        (SDStrings m0 → ∀ rest, ∃ ts, convSD o (C01.toks o1 (ofSem g m0)) = .ok ts ∧
          C02.decDmrs (ts ++ rest) =
            .ok (C02.viewS o (toC02 (graphInfoOf (C01.decodedS o1 (ofSem g m0))) d), rest)) ∧
        (XStrings m0 → ∃ x, convX o (C01.toks o1 (ofSem g m0)) = .ok x ∧
          C02.ofXml x = .ok (C02.viewX o (toC02 (graphInfoOf (C01.decodedS o1 (ofSem g m0))) d))) ∧
        (JStrings m0 → ∃ j, convJ o (C01.toks o1 (ofSem g m0)) = .ok j ∧
          C02.fromDict j = .ok (C02.viewJ o (toC02 (graphInfoOf (C01.decodedS o1 (ofSem g m0))) d))) := by
  obtain ⟨m, hm, hsim⟩ := reread_sim o1 g m0 h
  have he := ofSem_exprS g m0 h
  have hN' := sim_baseIdsDistinct m0 m hsim h.rolesNodup hN
  have hD' := sim_propsAreDicts m0 m hsim h.dicts
  refine ⟨m, hm, hsim, hN', fun d hd => ?_⟩
  have hb := fun rest => convert_simplemrs_dmrs_reads_back o1 o (ofSem g m0) he m hm hN' hD' d hd rest
  exact ⟨(convert_simplemrs_dmrs o1 o (ofSem g m0) he m hm d hd).1,
    fun hS rest => (hb rest).1 (sim_sdStrings m0 m hsim h.rolesNodup hS),
    fun hS => (hb []).2.1 (sim_xStrings m0 m hsim h.rolesNodup hS),
    fun hS => (hb []).2.2 (sim_jStrings m0 m hsim hS)⟩

/-- **T3 with hypotheses on the SOURCE only** (EDS targets). -/
theorem convert_shared_core_eds (o1 : C01.Opts) (pm : C05.PM) (hpm : pm = .off ∨ pm = .std) (o : C03.Opts)
    (g : GraphInfo) (m0 : MRS) (h : SrcOK m0)
    (hiv : m0.hasIVProperty = true) (hnr : C05.NoReserved m0) (hx : C05.ExpressibleM m0) :
    ∃ m, toSem (C01.decodedS o1 (ofSem g m0)) = some m ∧ MRSSim m0 m ∧
      ∀ e w, C05.fromMrs pm true m = .ok (e, w) → ∀ rest,
        (∃ ts, convE pm o (C01.toks o1 (ofSem g m0)) = .ok ts ∧
          C03.decodeEds (ts ++ rest) = .ok (C03.viewE o (toC03 (C01.decodedS o1 (ofSem g m0)).ident e), rest)) ∧
        (∃ t, convEText pm o (C01.toks o1 (ofSem g m0)) = .ok t ∧
          t = C03.textE o (toC03 (C01.decodedS o1 (ofSem g m0)).ident e)) := by
  obtain ⟨m, hm, hsim⟩ := reread_sim o1 g m0 h
  have he := ofSem_exprS g m0 h
  have hR := h.rolesNodup
  refine ⟨m, hm, hsim, fun e w hd rest => ?_⟩
  have hid' : (C01.decodedS o1 (ofSem g m0)).ident ≠ some [] := by
    simp [C01.decodedS, C01.mkMRS]
  have hb := convert_simplemrs_eds_reads_back o1 pm o (ofSem g m0) he m hm
    (sim_hasIVProperty m0 m hsim hR hiv) (sim_noReserved m0 m hsim hR hnr)
    (sim_expressibleM m0 m hsim hR hx) hpm hid' e w hd rest
  exact ⟨hb.1, hb.2.1⟩

/-- `SrcOK` is satisfiable: "the dog barks" -/
example : SrcOK dogBarksL := by
  constructor <;> decide

/-- **T3, documents** (list form, simplemrs → simpledmrs): for a multi-item document every item of which converts
inside the hypotheses, `convert` writes the concatenation of the items' encodings, in order, one per input item, and
C02's list decoder reads it back item by item. -/
theorem convert_doc_simplemrs_simpledmrs (o1 : C01.Opts) (o : C02.Opts) (ms : List C01.MRS)
    (he : ∀ m1 ∈ ms, C01.ExprS m1)
    (hc : ∀ m1 ∈ ms, ∃ m d, toSem (C01.decodedS o1 m1) = some m ∧ C04.fromMrs m = .ok d ∧
      C04.BaseIdsDistinct m ∧ PropsAreDicts m ∧ SDStrings m) :
    ∃ ds : List C02.DMRS, ds.length = ms.length ∧
      convDocSD o (C01.toksMany o1 ms) = .ok (ds.flatMap (C02.encDmrsToks o)) ∧
      C02.decodeList (ds.flatMap (C02.encDmrsToks o)) = .ok (ds.map (C02.viewS o)) := by
  obtain ⟨ds, hds, hlen, hall⟩ := mapP_ok_of_forall mrsToDmrs
    (fun m1' c => ∃ m d, toSem m1' = some m ∧ C04.fromMrs m = .ok d ∧ C04.BaseIdsDistinct m ∧
      PropsAreDicts m ∧ SDStrings m ∧ c = toC02 (graphInfoOf m1') d)
    (ms.map (C01.decodedS o1)) (by
      intro m1' hm1'
      obtain ⟨m1, hm1, rfl⟩ := List.mem_map.mp hm1'
      obtain ⟨m, d, hm, hd, hN, hD, hS⟩ := hc m1 hm1
      exact ⟨_, mrsToDmrs_eq _ m hm d hd, m, d, hm, hd, hN, hD, hS, rfl⟩)
  refine ⟨ds, by rw [hlen, List.length_map], ?_, ?_⟩
  · unfold convDocSD
    rw [readDoc_toksMany o1 ms he]
    simp only [bindP, hds]
  · apply C02.simpledmrs_list_roundtrip
    intro c hcmem
    obtain ⟨_, _, _, m, d, _, hd, hN, hD, hS, rfl⟩ := hall c hcmem
    exact ⟨toC02_wf _ m hN d hd, toC02_expressibleSD _ m hN hD hS d hd⟩

/-- **T3, documents** (list form, simplemrs → eds). -/
theorem convert_doc_simplemrs_eds (o1 : C01.Opts) (pm : C05.PM) (hpm : pm = .off ∨ pm = .std) (o : C03.Opts)
    (ms : List C01.MRS) (he : ∀ m1 ∈ ms, C01.ExprS m1)
    (hc : ∀ m1 ∈ ms, (C01.decodedS o1 m1).ident ≠ some [] ∧
      ∃ m e w, toSem (C01.decodedS o1 m1) = some m ∧ C05.fromMrs pm true m = .ok (e, w) ∧
        m.hasIVProperty = true ∧ C05.NoReserved m ∧ C05.ExpressibleM m) :
    ∃ es : List C03.EDS, es.length = ms.length ∧
      convDocE pm o (C01.toksMany o1 ms) = .ok (es.flatMap (C03.toksE o)) ∧
      C03.loadsToks (es.flatMap (C03.toksE o)) = .ok (es.map (C03.viewE o)) := by
  obtain ⟨es, hes, hlen, hall⟩ := mapP_ok_of_forall (mrsToEds pm)
    (fun _ c => C03.Expressible c)
    (ms.map (C01.decodedS o1)) (by
      intro m1' hm1'
      obtain ⟨m1, hm1, rfl⟩ := List.mem_map.mp hm1'
      obtain ⟨hid, m, e, w, hm, hd, hiv, hnr, hx⟩ := hc m1 hm1
      exact ⟨_, mrsToEds_eq pm _ m hm e w hd,
        (mrs_eds_expressible pm true m hiv hnr hx hpm _ hid e w hd).1⟩)
  refine ⟨es, by rw [hlen, List.length_map], ?_, ?_⟩
  · unfold convDocE
    rw [readDoc_toksMany o1 ms he]
    simp only [bindP, hes]
  · apply C03.docs_roundtrip
    intro c hcmem
    obtain ⟨_, _, _, hE⟩ := hall c hcmem
    exact hE

/-- the hypotheses of T3 are satisfiable: `dogBarksL` as a C01 structure … -/
def dogText : C01.MRS := ofSem {} dogBarksL

/-- … the adapter round trip returns it … -/
example : toSem dogText = some dogBarksL :=
  toSem_ofSem {} dogBarksL (by decide) (by decide)

/-- … it is expressible in SimpleMRS (C01's hypothesis) … -/
example : C01.ExprS dogText := by
  refine ⟨by decide, by decide, ?_, by decide, by decide, by decide, by decide⟩
  intro e he
  simp only [dogText, ofSem, dogBarksL, List.map_cons, List.map_nil, List.mem_cons, List.not_mem_nil,
    or_false] at he
  rcases he with rfl | rfl | rfl <;> (constructor <;> decide)

/-- … and what the SimpleMRS decoder returns for its encoding is inside the shared core, inside every hypothesis
of T1 / T2, and converts. -/
example : ∃ m, toSem (C01.decodedS ⟨true, true⟩ dogText) = some m ∧ C04.BaseIdsDistinct m ∧
    PropsAreDicts m ∧ SDStrings m ∧ XStrings m ∧ JStrings m ∧ IVsPlain m ∧ m.hasIVProperty = true ∧
    (C04.fromMrs m).toOption.isSome = true ∧ (C05.fromMrs .off true m).toOption.isSome = true := by
  refine ⟨_, rfl, ?_⟩
  decide

/-! ## T4  … → DMRS → MRS: the way back composes with C04's round-trip theorems

`WayBackOK m d m2` (ConvLemmas.lean) is the conjunction of C04's `roundtrip_predications`, `roundtrip_top` and
`roundtrip_index`: predication sequence, top and index preserved.  `chosen` is the choice of scope labels by
`scope.conjoin` (every statement holds for every choice). -/

/-- **T4, DMRS-JSON**: MRS → DMRS → JSON → DMRS → MRS.  The decoded graph, read back into the shared core, IS
`from_mrs(m)`, so `from_dmrs` of it is `from_dmrs(from_mrs(m))` and C04's round-trip theorems apply. -/
theorem mrs_dmrs_dmrsjson_back (g : GraphInfo)
    (hg : g.lnk = .unspec ∨ ∃ a b, g.lnk = .charspan a b ∧ ¬ (a = -1 ∧ b = -1)) (m : MRS)
    (hN : C04.BaseIdsDistinct m) (hD : PropsAreDicts m) (hJ : JStrings m) (hL : LnkTruthy m)
    (hR : C04.RolesOk m = true) (hS : C04.IVSorts m = true) (chosen : List Var) (d : DMRS) (m2 : MRS)
    (h1 : C04.fromMrs m = .ok d) (h2 : C04.fromDmrs chosen d = .ok m2) :
    ∃ c, C02.fromDict (C02.toDict ⟨true, true⟩ (toC02 g d)) = .ok c ∧ ofC02 c = d ∧
      C04.fromDmrs chosen (ofC02 c) = .ok m2 ∧ WayBackOK m (ofC02 c) m2 :=
  ⟨toC02 g d, mrs_dmrs_dmrsjson_identity g hg m hN hD hJ hL d h1,
    wayBack_after_codec g m hN hR hS chosen d m2 h1 h2 _ rfl⟩

/-- **T4, SimpleDMRS** (outside F11 and without surface/base strings, which the format does not carry). -/
theorem mrs_dmrs_simpledmrs_back (g : GraphInfo) (hg : g.lnk = .unspec ∨ g.lnk.truthy = true) (m : MRS)
    (hN : C04.BaseIdsDistinct m) (hD : PropsAreDicts m) (hSD : SDStrings m) (hU : NoUSort m)
    (hB : NoSurfaceBase m) (hR : C04.RolesOk m = true) (hS : C04.IVSorts m = true) (chosen : List Var)
    (d : DMRS) (m2 : MRS) (h1 : C04.fromMrs m = .ok d) (h2 : C04.fromDmrs chosen d = .ok m2) :
    ∃ c, C02.decDmrs (C02.encDmrsToks ⟨true, true⟩ (toC02 g d)) = .ok (c, []) ∧ ofC02 c = d ∧
      C04.fromDmrs chosen (ofC02 c) = .ok m2 ∧ WayBackOK m (ofC02 c) m2 := by
  refine ⟨toC02 g d, ?_, wayBack_after_codec g m hN hR hS chosen d m2 h1 h2 _ rfl⟩
  have := mrs_dmrs_simpledmrs_identity g hg m hN hD hSD hU hB d h1 []
  simpa using this

/-- **T4, DMRX** (every predication and the graph aligned: DMRX writes `-1` for a missing alignment). -/
theorem mrs_dmrs_dmrx_back (g : GraphInfo) (hg : ∃ a b, g.lnk = .charspan a b) (m : MRS)
    (hN : C04.BaseIdsDistinct m) (hD : PropsAreDicts m) (hX : XStrings m) (hA : AllAligned m)
    (hR : C04.RolesOk m = true) (hS : C04.IVSorts m = true) (chosen : List Var) (d : DMRS) (m2 : MRS)
    (h1 : C04.fromMrs m = .ok d) (h2 : C04.fromDmrs chosen d = .ok m2) :
    ∃ x c, C02.toXml ⟨true, true⟩ (toC02 g d) = .ok x ∧ C02.ofXml x = .ok c ∧ ofC02 c = d ∧
      C04.fromDmrs chosen (ofC02 c) = .ok m2 ∧ WayBackOK m (ofC02 c) m2 := by
  obtain ⟨x, hx1, hx2⟩ := mrs_dmrs_dmrx_identity g hg m hN hD hX hA d h1
  exact ⟨x, toC02 g d, hx1, hx2, wayBack_after_codec g m hN hR hS chosen d m2 h1 h2 _ rfl⟩

/-- without the alignment hypothesis the DMRX way back still returns `from_mrs(m)` up to the representation of a
missing alignment: every field of the shared core but `lnk` is that of `d`. -/
theorem mrs_dmrs_dmrx_back_partial (o : C02.Opts) (g : GraphInfo) (m : MRS) (hN : C04.BaseIdsDistinct m)
    (hD : PropsAreDicts m) (hX : XStrings m) (d : DMRS) (h1 : C04.fromMrs m = .ok d) :
    ∃ x c, C02.toXml o (toC02 g d) = .ok x ∧ C02.ofXml x = .ok c ∧
      (ofC02 c).top = d.top ∧ (ofC02 c).index = d.index ∧ (ofC02 c).links = d.links ∧
      (ofC02 c).nodes.map (·.id) = d.nodes.map (·.id) ∧
      (ofC02 c).nodes.map (·.predicate) = d.nodes.map (·.predicate) ∧
      (ofC02 c).nodes.map (·.carg) = d.nodes.map (·.carg) := by
  obtain ⟨x, hx1, hx2⟩ := mrs_dmrs_dmrx_roundtrip o g m hN hD hX d h1
  refine ⟨x, _, hx1, hx2, rfl, rfl, ?_, ?_, ?_, ?_⟩
  · have := ofC02_toC02 g d
    simp only [ofC02, C02.viewX, toC02] at this ⊢
    exact congrArg Sem.DMRS.links this
  · simp [ofC02, C02.viewX, toC02, C02.viewNodeX, nodeOfC02, nodeToC02, List.map_map, Function.comp_def]
  · simp [ofC02, C02.viewX, toC02, C02.viewNodeX, nodeOfC02, nodeToC02, List.map_map, Function.comp_def]
  · simp [ofC02, C02.viewX, toC02, C02.viewNodeX, nodeOfC02, nodeToC02, List.map_map, Function.comp_def,
      Option.map_map]

/-- the hypotheses of T4 are satisfiable: `dogBarksL` goes there and back. -/
example : C04.RolesOk dogBarksL = true ∧ C04.IVSorts dogBarksL = true ∧
    (match C04.fromMrs dogBarksL with
     | .ok d => (C04.fromDmrs [] d).toOption.isSome
     | .error _ => false) = true :=
  ⟨by decide, by decide, by rfl⟩

end Verif.Integration
