/-
Integration — helper lemmas for T3 (the composed `convert` on the encoder's own tokens) and T4 (the way back):
unfolding lemmas of the composed functions of `Adapt.lean`, and the packaging of C04's round-trip theorems.
Core Lean only.
-/
import Verif.Integration.Adapt
import Verif.Integration.AdaptLemmas
import Verif.C01.Props
import Verif.C04.Props
import Verif.C04.PropsRT

namespace Verif.Integration
open Verif.Codec Verif.Sem

/-! ### reading the encoder's tokens (C01's round-trip theorems) -/

theorem readItem_toks (o1 : C01.Opts) (m1 : C01.MRS) (he : C01.ExprS m1) :
    readItem (C01.toks o1 m1) = .ok (C01.decodedS o1 m1) := by
  unfold readItem
  have h := C01.P.simplemrs_roundtrip o1 m1 [] he
  simp only [List.append_nil] at h
  rw [h]

theorem toks_ne_nil (o1 : C01.Opts) (m1 : C01.MRS) : 1 ≤ (C01.toks o1 m1).length := by
  obtain ⟨X, hX⟩ := C01.SimpleL.toks_head o1 m1
  rw [hX, List.length_cons]
  omega

theorem toksMany_length (o1 : C01.Opts) (ms : List C01.MRS) : ms.length ≤ (C01.toksMany o1 ms).length := by
  induction ms with
  | nil => simp
  | cons m ms ih =>
    have h1 := toks_ne_nil o1 m
    have : C01.toksMany o1 (m :: ms) = C01.toks o1 m ++ C01.toksMany o1 ms := by
      simp [C01.toksMany, List.flatMap_cons]
    rw [this, List.length_append, List.length_cons]
    omega

theorem readDoc_toksMany (o1 : C01.Opts) (ms : List C01.MRS) (he : ∀ m ∈ ms, C01.ExprS m) :
    readDoc (C01.toksMany o1 ms) = .ok (ms.map (C01.decodedS o1)) := by
  unfold readDoc
  rw [C01.P.simplemrs_roundtrip_many o1 ms he _ (by have := toksMany_length o1 ms; omega)]

/-! ### one converter step -/

theorem mrsToDmrs_eq (m1 : C01.MRS) (m : MRS) (hm : toSem m1 = some m) (d : DMRS)
    (hd : C04.fromMrs m = .ok d) : mrsToDmrs m1 = .ok (toC02 (graphInfoOf m1) d) := by
  unfold mrsToDmrs
  rw [hm]
  simp only [hd]

theorem mrsToEds_eq (pm : C05.PM) (m1 : C01.MRS) (m : MRS) (hm : toSem m1 = some m) (e : C05.EDS)
    (w : List C05.Warn) (he : C05.fromMrs pm true m = .ok (e, w)) :
    mrsToEds pm m1 = .ok (toC03 m1.ident e) := by
  unfold mrsToEds
  rw [hm]
  simp only [he]

/-- a comprehension over converters all of which succeed with a result satisfying `P` -/
theorem mapP_ok_of_forall {α β : Type} (f : α → Except PErr β) (P : α → β → Prop) :
    ∀ (xs : List α), (∀ x ∈ xs, ∃ y, f x = .ok y ∧ P x y) →
      ∃ ys, mapP f xs = .ok ys ∧ ys.length = xs.length ∧ ∀ y ∈ ys, ∃ x ∈ xs, f x = .ok y ∧ P x y := by
  intro xs
  induction xs with
  | nil => intro _; exact ⟨[], rfl, rfl, by simp⟩
  | cons x xs ih =>
    intro h
    obtain ⟨y, hy, hp⟩ := h x List.mem_cons_self
    obtain ⟨ys, hys, hlen, hall⟩ := ih (fun x' hx' => h x' (List.mem_cons_of_mem _ hx'))
    refine ⟨y :: ys, ?_, by simp [hlen], ?_⟩
    · unfold mapP
      rw [hy]
      simp only [hys]
    · intro y' hy'
      rcases List.mem_cons.mp hy' with rfl | hmem
      · exact ⟨x, List.mem_cons_self, hy, hp⟩
      · obtain ⟨x', hx', h1, h2⟩ := hall y' hmem
        exact ⟨x', List.mem_cons_of_mem _ hx', h1, h2⟩

/-! ### T4: what C04 proves about the way back, as one predicate -/

/-- "MRS → DMRS → MRS preserves what DMRS can express", the positional part proved by C04
(`roundtrip_predications`, `roundtrip_top`, `roundtrip_index`): the predications come back in the source order
with predicate, constant, lnk, surface and base unchanged and no individual constraints; the top still selects the
scope of the same predication; the index is the intrinsic variable of the same predication. -/
def WayBackOK (m : MRS) (d : DMRS) (m2 : MRS) : Prop :=
  (m2.rels.map C04.epFace = m.rels.map C04.epFace ∧ m2.icons = []) ∧
  ((d.top = none → m2.top = none) ∧
    ∀ j, d.top = some (C04.nidAt j) → ∃ e2, m2.rels[j]? = some e2 ∧
      m2.top = some ⟨C04.HANDLE, 0⟩ ∧ m2.scopes.1 = some e2.label) ∧
  ((d.index = none → m2.index = none) ∧
    ∀ j, d.index = some (C04.nidAt j) → ∃ v2 e2, m2.index = some v2 ∧ m2.rels[j]? = some e2 ∧
      e2.iv = some v2 ∧ e2.isQuantifier = false ∧
      ∀ k e', m2.rels[k]? = some e' → e'.isQuantifier = false → e'.iv = some v2 → k = j)

theorem wayBackOK_of_c04 (m : MRS) (hN : C04.BaseIdsDistinct m) (hR : C04.RolesOk m = true)
    (hS : C04.IVSorts m = true) (chosen : List Var) (d : DMRS) (m2 : MRS)
    (h1 : C04.fromMrs m = .ok d) (h2 : C04.fromDmrs chosen d = .ok m2) : WayBackOK m d m2 :=
  ⟨C04.roundtrip_predications m hN chosen d m2 h1 h2, C04.roundtrip_top m hN hR chosen d m2 h1 h2,
   C04.roundtrip_index m hN hR hS chosen d m2 h1 h2⟩

/-- the way back after a codec that returned the converted graph itself -/
theorem wayBack_after_codec (g : GraphInfo) (m : MRS) (hN : C04.BaseIdsDistinct m)
    (hR : C04.RolesOk m = true) (hS : C04.IVSorts m = true) (chosen : List Var) (d : DMRS) (m2 : MRS)
    (h1 : C04.fromMrs m = .ok d) (h2 : C04.fromDmrs chosen d = .ok m2) (c : C02.DMRS)
    (hc : c = toC02 g d) :
    ofC02 c = d ∧ C04.fromDmrs chosen (ofC02 c) = .ok m2 ∧ WayBackOK m (ofC02 c) m2 := by
  subst hc
  rw [ofC02_toC02]
  exact ⟨rfl, h2, wayBackOK_of_c04 m hN hR hS chosen d m2 h1 h2⟩

end Verif.Integration
