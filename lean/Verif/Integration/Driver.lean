/- Integration line-protocol driver: `lake env lean --run Verif/Integration/Driver.lean`.
Evaluates the COMPOSED model functions of `Verif/Integration/Adapt.lean`.

Requests
  {"op":"pipe","m":<Sem MRS, shapes of Common/SemJson.lean>,"o":{"properties":b,"lnk":b},
   "g":{"lnk":<c02 lnk>,"surface":cps|null,"identifier":cps|null}}
      → hypotheses, `dmrs.from_mrs` through every DMRS codec, `eds.from_mrs` through every EDS codec
  {"op":"conv","toks":[[kind,cps]…],"o":…,"pm":bool,"doc":bool}
      → the composed `convert(simplemrs → …)` on the real lexer's tokens
Answers use the JSON shapes of the C02 driver for DMRS structures (harness.c02.canon_dmrs, tree_to_j, jv) and of the
C03 driver for EDS structures (harness.c03.eds_to_j, lex_tokens, dict_obs). -/
import Verif.Common.Proto
import Verif.Common.SemJson
import Verif.Integration.Adapt
open Lean Verif.Proto Verif.Codec Verif.Sem

namespace Verif.Integration.Driver
open Verif.Integration

/-! ### C02 shapes -/

def jLnk2 : Lnk → Json
  | .unspec => Json.null
  | .charspan a b => Json.arr #[Json.str "c", jInt a, jInt b]
  | .chartspan a b => Json.arr #[Json.str "v", jInt a, jInt b]
  | .tokens ts => Json.arr #[Json.str "t", jList jInt ts]
  | .edge n => Json.arr #[Json.str "e", jInt n]

def ofLnk2 (j : Json) : Except String Lnk :=
  match j with
  | Json.null => pure .unspec
  | _ => do
    let a ← j.getArr?
    match a.toList with
    | [k, x, y] => do
      let k ← k.getStr?
      if k = "c" then pure (.charspan (← x.getInt?) (← y.getInt?))
      else if k = "v" then pure (.chartspan (← x.getInt?) (← y.getInt?))
      else throw "bad lnk"
    | [k, x] => do
      let k ← k.getStr?
      if k = "t" then pure (.tokens (← (← x.getArr?).toList.mapM (·.getInt?)))
      else if k = "e" then pure (.edge (← x.getInt?))
      else throw "bad lnk"
    | _ => throw "bad lnk"

def jPairs (ps : List (Str × Str)) : Json := jList (fun kv => Json.arr #[cps kv.1, cps kv.2]) ps

def jNode2 (n : C02.Node) : Json := Json.mkObj [
  ("id", jInt n.id), ("pred", cps n.pred), ("type", optCps n.type), ("props", jPairs n.props),
  ("carg", optCps n.carg), ("lnk", jLnk2 n.lnk), ("surface", optCps n.surface), ("base", optCps n.base)]

def jLink2 (l : C02.Link) : Json := Json.mkObj [
  ("start", jInt l.start), ("stop", jInt l.stop), ("role", optCps l.role), ("post", optCps l.post)]

def jDMRS2 (d : C02.DMRS) : Json := Json.mkObj [
  ("top", jOptInt d.top), ("index", jOptInt d.index), ("nodes", jList jNode2 d.nodes),
  ("links", jList jLink2 d.links), ("lnk", jLnk2 d.lnk), ("surface", optCps d.surface),
  ("identifier", optCps d.identifier)]

def kind2 : C02.K → String
  | .lbrace => "LBRACE" | .rbrace => "RBRACE" | .lbracket => "LBRACKET" | .rbracket => "RBRACKET"
  | .lparen => "LPAREN" | .rparen => "RPAREN" | .lnk => "LNK" | .dq => "DQSTRING" | .colon => "COLON"
  | .slash => "SLASH" | .equals => "EQUALS" | .semicolon => "SEMICOLON" | .arrow => "ARROW" | .symbol => "SYMBOL"

def jTok2 (t : C02.T) : Json := Json.arr #[Json.str (kind2 t.kind), cps t.text]

def err2 : C02.Err → String
  | .syntax => "DMRSSyntaxError" | .eof => "StopIteration" | .value => "ValueError" | .key => "KeyError"
  | .attr => "AttributeError" | .index => "IndexError" | .type => "TypeError" | .pred => "PredicateError"
  | .unmodelled => "unmodelled"

def jEx2 {α} (f : α → Json) : Except C02.Err α → Json
  | .ok a => jOk (f a)
  | .error e => jErr (err2 e)

def jLeaf (e : C02.XLeaf) : Json := Json.mkObj [("tag", cps e.tag), ("attrs", jPairs e.attrs), ("text", optCps e.text)]
def jMid (e : C02.XMid) : Json :=
  Json.mkObj [("tag", cps e.tag), ("attrs", jPairs e.attrs), ("children", jList jLeaf e.children)]
def jX (e : C02.XDmrs) : Json := Json.mkObj [("attrs", jPairs e.attrs), ("children", jList jMid e.children)]

/-- `C02.JV` has nested lists: structural recursion through an explicit fuel-free helper is awkward, so the
encoder recurses on a size bound (the value's own node count suffices). -/
def jJVn : Nat → C02.JV → Json
  | 0, _ => Json.null
  | _ + 1, .null => Json.null
  | _ + 1, .int i => jInt i
  | _ + 1, .str s => Json.mkObj [("s", cps s)]
  | n + 1, .arr xs => Json.arr (xs.map (jJVn n)).toArray
  | n + 1, .obj kvs => Json.mkObj [("o", Json.arr (kvs.map (fun kv => Json.arr #[cps kv.1, jJVn n kv.2])).toArray)]

/-- `to_dict` results are at most 5 levels deep -/
def jJV (v : C02.JV) : Json := jJVn 16 v

def ofOpts2 (j : Json) : Except String C02.Opts := do
  pure { properties := ← getBool j "properties", lnk := ← getBool j "lnk" }

/-! ### C03 shapes -/

def jLnk3 : Lnk → Json
  | .unspec => Json.null
  | .charspan a b => Json.mkObj [("k", "c"), ("d", jList jInt [a, b])]
  | .chartspan a b => Json.mkObj [("k", "v"), ("d", jList jInt [a, b])]
  | .tokens ts => Json.mkObj [("k", "t"), ("d", jList jInt ts)]
  | .edge n => Json.mkObj [("k", "e"), ("d", jList jInt [n])]

def jNode3 (n : C03.Node) : Json :=
  Json.mkObj [("id", cps n.id), ("pred", cps n.pred), ("type", optCps n.type), ("edges", jPairs n.edges),
    ("props", jPairs n.props), ("carg", optCps n.carg), ("lnk", jLnk3 n.lnk)]

def jEds3 (e : C03.EDS) : Json :=
  Json.mkObj [("top", optCps e.top), ("nodes", jList jNode3 e.nodes), ("ident", optCps e.identifier)]

def kind3 : C03.K → String
  | .ident => "IDENTIFIER" | .lbrace => "LBRACE" | .rbrace => "RBRACE" | .gstatus => "GRAPHSTATUS"
  | .nstatus => "NODESTATUS" | .lnk => "LNK" | .carg => "CARG" | .colon => "COLON" | .comma => "COMMA"
  | .lbracket => "LBRACKET" | .rbracket => "RBRACKET" | .sym => "SYMBOL"

def jTok3 (t : C03.Token) : Json := Json.arr #[Json.str (kind3 t.kind), cps t.text]

def err3 : C03.Err → String
  | .syntax => "EDSSyntaxError" | .stop => "StopIteration" | .index => "IndexError" | .keyError => "KeyError"
  | .lnkError => "LnkError" | .valueError => "ValueError" | .fuel => "fuel"

def jEx3 {α} (f : α → Json) : Except C03.Err α → Json
  | .ok a => jOk (f a)
  | .error e => jErr (err3 e)

def jJNode3 (p : Str × C03.JNode) : Json :=
  Json.mkObj [("id", cps p.1), ("label", cps p.2.label), ("edges", jPairs p.2.edges),
    ("lnk", match p.2.lnk with | some (a, b) => jList jInt [a, b] | none => Json.null),
    ("type", optCps p.2.type),
    ("props", match p.2.props with | some d => jPairs d | none => Json.null),
    ("carg", optCps p.2.carg)]

def jJEds3 (d : C03.JEds) : Json := Json.mkObj [("top", optCps d.top), ("nodes", jList jJNode3 d.nodes)]

/-! ### C01 tokens, errors -/

def ofK1 (s : String) : Except String C01.K :=
  match s with
  | "LBRACK" => pure .lbrack | "RBRACK" => pure .rbrack | "LNK" => pure .lnk | "DQSTRING" => pure .dq
  | "SQSYMBOL" => pure .sq | "PREDICATE" => pure .pred | "LANGLE" => pure .langle | "RANGLE" => pure .rangle
  | "FEATURE" => pure .feature | "SYMBOL" => pure .symbol | _ => throw s!"bad kind {s}"

def ofTok1 (j : Json) : Except String C01.T := do
  match (← j.getArr?).toList with
  | [k, s] => pure ⟨← ofK1 (← k.getStr?), ← ofCps s⟩
  | _ => throw "bad tok"

def err4 : C04.Err → String
  | .keyError => "KeyError" | .indexError => "IndexError" | .valueError => "MRSError"
  | .unmodelled => "unmodelled" | .fuel => "fuel"

def err5 : C05.E → String
  | .indexError => "IndexError" | .keyError => "KeyError" | .sem e => Verif.Sem.J.errTag e

def errP : PErr → Json
  | .src .syntax => jErr "MRSSyntaxError"
  | .src .eof => jErr "StopIteration"
  | .src .value => jErr "ValueError"
  | .adapt => jErr "unmodelled"
  | .c04 e => jErr (err4 e)
  | .c05 e => jErr (err5 e)
  | .c02 e => jErr (err2 e)
  | .c03 e => jErr (err3 e)

def jExP {α} (f : α → Json) : Except PErr α → Json
  | .ok a => jOk (f a)
  | .error e => errP e

/-! ### hypotheses -/

def noReservedB (m : MRS) : Bool :=
  m.rels.all (fun e => decide (ivAll e (fun v => v.sort ≠ "_" ∧ v.sort ≠ "q")))

def upS (s : String) : String := String.ofList (s.toList.map Char.toUpper)
def loS (s : String) : String := String.ofList (s.toList.map Char.toLower)

/-- C05's `ExpressibleM` as a test -/
def expressibleMB (m : MRS) : Bool :=
  m.rels.all (fun e => loS e.predicate == e.predicate && e.args.all (fun a => upS a.1 == a.1) &&
    decide (ivAll e (fun v => v.sort ≠ ""))) &&
  m.variables.all (fun vp => vp.2.all (fun p => upS p.1 == p.1 && loS p.2 == p.2) &&
    decide (vp.2.map (·.1)).Nodup)

def ivPlainB (m : MRS) : Bool := m.rels.all (fun e => decide (ivAll e (fun v => sortPlain v.sort)))

def hyps (m : MRS) : Json := Json.mkObj [
  ("idsDistinct", Json.bool m.idsDistinct),
  ("baseIdsDistinct", Json.bool (decide (m.rels.map EP.baseId).Nodup)),
  ("wf", Json.bool m.isWellFormed), ("ivprop", Json.bool m.hasIVProperty),
  ("propsAreDicts", Json.bool (decide (PropsAreDicts m))),
  ("sdStrings", Json.bool (decide (SDStrings m))), ("xStrings", Json.bool (decide (XStrings m))),
  ("jStrings", Json.bool (decide (JStrings m))), ("noUSort", Json.bool (decide (NoUSort m))),
  ("noSurfaceBase", Json.bool (decide (NoSurfaceBase m))), ("lnkTruthy", Json.bool (decide (LnkTruthy m))),
  ("allAligned", Json.bool (decide (AllAligned m))), ("varsPlain", Json.bool (decide (VarsPlain m))),
  ("noCargRole", Json.bool (decide (NoCargRole m))),
  ("noReserved", Json.bool (noReservedB m)), ("expressibleM", Json.bool (expressibleMB m)),
  ("ivPlain", Json.bool (ivPlainB m))]

def ofGraphInfo (j : Json) : Except String GraphInfo := do
  match j with
  | Json.null => pure {}
  | _ => pure { lnk := ← ofLnk2 (← j.getObjVal? "lnk"), surface := ← getOptCps j "surface",
                identifier := ← getOptCps j "identifier" }

/-! ### the DMRS side: every codec on one converted graph -/

def backIs (d : DMRS) : Except C02.Err C02.DMRS → Json
  | .ok c => Json.bool (ofC02 c == d)
  | .error _ => Json.null

def dmrsCodecs (o : C02.Opts) (d : DMRS) (c : C02.DMRS) : Json :=
  let toks := C02.encDmrsToks o c
  Json.mkObj [
    ("d", jDMRS2 c),
    ("wf", Json.bool (c.links.all (fun l => l.start != C02.TOP_NODE_ID))),
    ("sd", Json.mkObj [("text", cps (C02.encDmrsText o none c)), ("toks", jList jTok2 toks),
                       ("dec", jEx2 (fun (p : C02.DMRS × List C02.T) => jDMRS2 p.1) (C02.decDmrs toks))]),
    ("x", Json.mkObj [("enc", jEx2 jX (C02.toXml o c)),
                      ("dec", jEx2 jDMRS2 (match C02.toXml o c with | .ok x => C02.ofXml x | .error e => .error e))]),
    ("j", Json.mkObj [("enc", jJV (C02.toDict o c)), ("dec", jEx2 jDMRS2 (C02.fromDict (C02.toDict o c)))]),
    -- T4: is the decoded graph, read back into the shared core, `from_mrs(m)` itself?
    ("back", Json.mkObj [
      ("sd", backIs d (match C02.decDmrs toks with | .ok p => .ok p.1 | .error e => .error e)),
      ("x", backIs d (match C02.toXml o c with | .ok x => C02.ofXml x | .error e => .error e)),
      ("j", backIs d (C02.fromDict (C02.toDict o c)))])]

/-! ### the EDS side -/

def edsCodecs (o : C03.Opts) (e : C03.EDS) : Json :=
  let toks := C03.toksE o e
  Json.mkObj [
    ("e", jEds3 e),
    ("text", jEx3 cps (C03.encode o e)),
    ("toks", jList jTok3 toks),
    ("dec", jEx3 jEds3 (C03.decodeOne toks)),
    ("jenc", jJEds3 (C03.toDict o.properties o.lnk e)),
    ("jdec", jEds3 (C03.fromDict (C03.toDict o.properties o.lnk e)))]

def edsOne (m : MRS) (o : C03.Opts) (ident : Option Str) (pm : C05.PM) : Json :=
  match C05.fromMrsRaw pm m with
  | .error e => jErr (err5 e)
  | .ok (raw, _) =>
    if !C05.idOrderDetermined m raw.nodes then Json.mkObj [("unmodelled", Json.str "set_order")]
    else match C05.fromMrs pm true m with
      | .error e => jErr (err5 e)
      | .ok (e, _) => jOk (edsCodecs o (toC03 ident e))

def handlePipe (j : Json) : Except String Json := do
  let m ← Verif.Sem.J.ofMRS (← j.getObjVal? "m")
  let o ← ofOpts2 (← j.getObjVal? "o")
  let g ← match j.getObjVal? "g" with | .ok gj => ofGraphInfo gj | .error _ => pure {}
  let o3 : C03.Opts := { properties := o.properties, lnk := o.lnk, showStatus := false, indent := false }
  if !m.idsDistinct then
    return Json.mkObj [("unmodelled", Json.str "dup_ids"), ("hyp", hyps m)]
  let dm : Json := match C04.fromMrs m with
    | .error e => jErr (err4 e)
    | .ok d => jOk (dmrsCodecs o d (toC02 g d))
  pure (Json.mkObj [("hyp", hyps m), ("dmrs", dm),
    ("eds_off", edsOne m o3 g.identifier .off), ("eds_std", edsOne m o3 g.identifier .std),
    -- adapter round trip Sem → C01 → Sem
    ("adapt_rt", Json.bool (toSem (ofSem g m) == some m))])

/-! ### the composed `convert` on SimpleMRS tokens -/

def handleConv (j : Json) : Except String Json := do
  let toks ← (← getArr j "toks").mapM ofTok1
  let o ← ofOpts2 (← j.getObjVal? "o")
  let pmB ← getBool j "pm"
  let doc ← getBool j "doc"
  let pm : C05.PM := if pmB then .std else .off
  let o3 : C03.Opts := { properties := o.properties, lnk := o.lnk, showStatus := false, indent := false }
  if doc then
    let srcs : Json := match readDoc toks with
      | .error e => errP e
      | .ok ms => jOk (jList (fun m1 => match toSem m1 with
          | some m => Json.mkObj [("idsDistinct", Json.bool m.idsDistinct),
              ("orderDet", Json.bool (match C05.fromMrsRaw pm m with
                | .ok (raw, _) => C05.idOrderDetermined m raw.nodes
                | .error _ => true))]
          | none => Json.null) ms)
    pure (Json.mkObj [
      ("src", srcs),
      ("sd", jExP (jList jTok2) (convDocSD o toks)),
      ("x", jExP (jList jX) (convDocX o toks)),
      ("j", jExP (jList jJV) (convDocJ o toks)),
      ("eds", jExP (jList jTok3) (convDocE pm o3 toks)),
      ("edsj", jExP (jList jJEds3) (convDocEJ pm o.properties o.lnk toks))])
  else
    let src : Json := match readItem toks with
      | .error e => errP e
      | .ok m1 => match toSem m1 with
        | some m => jOk (Json.mkObj [("idsDistinct", Json.bool m.idsDistinct), ("hyp", hyps m),
            ("orderDet", Json.bool (match C05.fromMrsRaw pm m with
              | .ok (raw, _) => C05.idOrderDetermined m raw.nodes
              | .error _ => true))])
        | none => jErr "unmodelled"
    pure (Json.mkObj [
      ("src", src),
      ("sd", jExP (jList jTok2) (convSD o toks)),
      ("sdtext", jExP cps (convSDText o none toks)),
      ("x", jExP jX (convX o toks)),
      ("j", jExP jJV (convJ o toks)),
      ("eds", jExP (jList jTok3) (convE pm o3 toks)),
      ("edstext", jExP cps (convEText pm o3 toks)),
      ("edsj", jExP jJEds3 (convEJ pm o.properties o.lnk toks))])

def handle (j : Json) : Except String Json := do
  let op ← getStr j "op"
  match op with
  | "pipe" => handlePipe j
  | "conv" => handleConv j
  | _ => throw s!"bad op {op}"

end Verif.Integration.Driver

def main : IO Unit := Verif.Proto.serve Verif.Integration.Driver.handle
