/-
Integration layer — the adapters of `Verif/Integration/Adapt.lean` are faithful: going there and back is
the identity (`Sem.DMRS → C02.DMRS → Sem.DMRS`, `Sem.MRS → C01.MRS → Sem.MRS` on plainly spelled variables).

Core Lean only.
-/
import Verif.Integration.Adapt
import Verif.Common.CodecLemmas

namespace Verif.Integration
open Verif.Codec Verif.Sem

/-! ## atoms -/

theorem lnkBack_lnkOf (l : Option (Int × Int)) : lnkBack (lnkOf l) = l := by
  cases l with
  | none => rfl
  | some p => obtain ⟨a, b⟩ := p; rfl

theorem optMap_ofList_toList (o : Option String) : (o.map String.toList).map String.ofList = o := by
  cases o <;> simp [String.ofList_toList]

theorem propsOf_propsTo (ps : Sem.Props) : propsOf (propsTo ps) = ps := by
  unfold propsOf propsTo
  rw [List.map_map]
  induction ps with
  | nil => rfl
  | cons p ps ih =>
    obtain ⟨k, v⟩ := p
    simp only [List.map_cons, Function.comp, String.ofList_toList, ih]

/-! ## DMRS: Sem ↔ C02 -/

theorem nodeOfC02_nodeToC02 (n : Sem.Node) : nodeOfC02 (nodeToC02 n) = n := by
  obtain ⟨id, pred, type, props, carg, lnk, surface, base⟩ := n
  simp only [nodeOfC02, nodeToC02, optMap_ofList_toList, propsOf_propsTo, lnkBack_lnkOf,
    String.ofList_toList]

theorem linkOfC02_linkToC02 (l : Sem.Link) : linkOfC02 (linkToC02 l) = l := by
  obtain ⟨a, b, r, p⟩ := l
  simp only [linkOfC02, linkToC02, Option.getD_some, String.ofList_toList]

theorem map_id_of_forall {α : Type} (f : α → α) (h : ∀ a, f a = a) (xs : List α) : xs.map f = xs := by
  induction xs with
  | nil => rfl
  | cons x xs ih => simp only [List.map_cons, h, ih]

/-- Sem.DMRS → C02.DMRS → Sem.DMRS is the identity: `toC02 g` is injective -/
theorem ofC02_toC02 (g : GraphInfo) (d : Sem.DMRS) : ofC02 (toC02 g d) = d := by
  obtain ⟨top, index, nodes, links⟩ := d
  simp only [ofC02, toC02, List.map_map]
  rw [map_id_of_forall (nodeOfC02 ∘ nodeToC02) (fun n => nodeOfC02_nodeToC02 n),
    map_id_of_forall (linkOfC02 ∘ linkToC02) (fun l => linkOfC02_linkToC02 l)]

theorem graphInfoOfC02_toC02 (g : GraphInfo) (d : Sem.DMRS) : graphInfoOfC02 (toC02 g d) = g := by
  obtain ⟨a, b, c⟩ := g
  rfl

theorem toC02_injective (g : GraphInfo) (d d' : Sem.DMRS) (h : toC02 g d = toC02 g d') : d = d' := by
  rw [← ofC02_toC02 g d, ← ofC02_toC02 g d', h]

/-! ## variables: `variable.split` undoes the spelling -/

theorem isDigitC_eq_isDigit (c : Char) : C01.isDigitC c = c.isDigit := by
  simp [C01.isDigitC, Char.isDigit, Char.le_def]

theorem takeWhile_isDigitC_reverse_varStr (v : Var) (h : sortPlain v.sort) :
    (varStr v).reverse.takeWhile C01.isDigitC = (natStr v.vid).reverse := by
  unfold varStr
  rw [List.reverse_append]
  rw [List.takeWhile_append_of_pos]
  · have : List.takeWhile C01.isDigitC v.sort.toList.reverse = [] := by
      cases hr : v.sort.toList.reverse with
      | nil => rfl
      | cons c r =>
        have hl : v.sort.toList.getLast? = some c := by
          rw [List.getLast?_eq_head?_reverse, hr]; rfl
        have hc := h c (by rw [hl]; exact rfl)
        simp only [List.takeWhile_cons, isDigitC_eq_isDigit, hc]
        rfl
    rw [this, List.append_nil]
  · intro c hc
    rw [isDigitC_eq_isDigit]
    exact mem_natStr_isDigit (List.mem_reverse.mp hc)

theorem varSplit_varStr (v : Var) (h : sortPlain v.sort) :
    C01.varSplit (varStr v) = (v.sort.toList, natStr v.vid) := by
  unfold C01.varSplit
  simp only [takeWhile_isDigitC_reverse_varStr v h, List.reverse_reverse]
  congr 1
  unfold varStr
  apply List.take_left'
  simp only [List.length_append]
  omega

/-- `variable.split` undoes the spelling when the sort does not end in a digit -/
theorem parseVar_varStr (v : Var) (h : sortPlain v.sort) : parseVar (varStr v) = some v := by
  unfold parseVar
  rw [varSplit_varStr v h]
  simp only [parseNat_natStr, if_true, String.ofList_toList]

/-! ## MRS: Sem → C01 → Sem -/

theorem mapMOpt_map {α β : Type} (f : β → Option α) (g : α → β) (xs : List α)
    (h : ∀ x ∈ xs, f (g x) = some x) : mapMOpt f (xs.map g) = some xs := by
  induction xs with
  | nil => rfl
  | cons x xs ih =>
    have h1 := h x (List.mem_cons_self)
    have h2 := ih (fun y hy => h y (List.mem_cons_of_mem _ hy))
    simp only [List.map_cons, mapMOpt, h1, h2]

theorem lnkToSem_lnkOf (l : Option (Int × Int)) : lnkToSem (lnkOf l) = some l := by
  cases l with
  | none => rfl
  | some p => obtain ⟨a, b⟩ := p; rfl

theorem optVar_map_varStr (o : Option Var) (h : ∀ v ∈ o, sortPlain v.sort) :
    optVar (o.map varStr) = some o := by
  cases o with
  | none => rfl
  | some v => simp only [Option.map_some, optVar, parseVar_varStr v (h v rfl)]

theorem argToSem_arg (a : Role × Var) (h : sortPlain a.2.sort) :
    argToSem (a.1.toList, varStr a.2) = some a := by
  simp only [argToSem, parseVar_varStr a.2 h, Option.map_some, String.ofList_toList]

theorem dget_append_single {β : Type} (xs : C01.Dict β) (k : Str) (v : β) (h : ∀ a ∈ xs, a.1 ≠ k) :
    C01.dget (xs ++ [(k, v)]) k = some v := by
  induction xs with
  | nil => simp [C01.dget]
  | cons x xs ih =>
    obtain ⟨k', v'⟩ := x
    have hk : k' ≠ k := h (k', v') List.mem_cons_self
    simp only [List.cons_append, C01.dget, hk, if_false]
    exact ih (fun a ha => h a (List.mem_cons_of_mem _ ha))

theorem dget_none {β : Type} (xs : C01.Dict β) (k : Str) (h : ∀ a ∈ xs, a.1 ≠ k) :
    C01.dget xs k = none := by
  induction xs with
  | nil => rfl
  | cons x xs ih =>
    obtain ⟨k', v'⟩ := x
    have hk : k' ≠ k := h (k', v') List.mem_cons_self
    simp only [C01.dget, hk, if_false]
    exact ih (fun a ha => h a (List.mem_cons_of_mem _ ha))

theorem epToSem_epOfSem (e : Sem.EP)
    (hv : sortPlain e.label.sort ∧ ∀ a ∈ e.args, sortPlain a.2.sort)
    (hc : ∀ a ∈ e.args, a.1.toList ≠ C01.CARG) : epToSem (epOfSem e) = some e := by
  obtain ⟨pred, label, args, carg, lnk, surface, base⟩ := e
  simp only at hv hc
  have hkeys : ∀ a ∈ args.map (fun a : Role × Var => (a.1.toList, varStr a.2)), a.1 ≠ C01.CARG := by
    intro a ha
    simp only [List.mem_map] at ha
    obtain ⟨b, hb, rfl⟩ := ha
    exact hc b hb
  have hfilt : (args.map (fun a : Role × Var => (a.1.toList, varStr a.2))).filter
      (fun a => decide (a.1 ≠ C01.CARG)) = args.map (fun a : Role × Var => (a.1.toList, varStr a.2)) := by
    rw [List.filter_eq_self]
    intro a ha
    exact decide_eq_true (hkeys a ha)
  have hargs : mapMOpt argToSem (args.map (fun a : Role × Var => (a.1.toList, varStr a.2))) = some args :=
    mapMOpt_map argToSem _ args (fun a ha => argToSem_arg a (hv.2 a ha))
  cases carg with
  | none =>
    simp only [epToSem, epOfSem, List.append_nil, hfilt, hargs, parseVar_varStr label hv.1,
      lnkToSem_lnkOf, dget_none _ _ hkeys, optMap_ofList_toList, String.ofList_toList, Option.map_none]
  | some c =>
    have hf2 : (args.map (fun a : Role × Var => (a.1.toList, varStr a.2)) ++ [(C01.CARG, c.toList)]).filter
        (fun a => decide (a.1 ≠ C01.CARG)) = args.map (fun a : Role × Var => (a.1.toList, varStr a.2)) := by
      rw [List.filter_append, hfilt]
      simp
    simp only [epToSem, epOfSem, hf2, hargs, parseVar_varStr label hv.1,
      lnkToSem_lnkOf, dget_append_single _ _ _ hkeys, optMap_ofList_toList, String.ofList_toList,
      Option.map_some]

theorem hconsToSem_hcons (c : Sem.HCons) (h : sortPlain c.hi.sort ∧ sortPlain c.lo.sort) :
    hconsToSem ⟨varStr c.hi, c.rel.toList, varStr c.lo⟩ = some c := by
  simp only [hconsToSem, parseVar_varStr _ h.1, parseVar_varStr _ h.2, String.ofList_toList]

theorem iconsToSem_icons (c : Sem.ICons) (h : sortPlain c.left.sort ∧ sortPlain c.right.sort) :
    iconsToSem ⟨varStr c.left, c.rel.toList, varStr c.right⟩ = some c := by
  simp only [iconsToSem, parseVar_varStr _ h.1, parseVar_varStr _ h.2, String.ofList_toList]

theorem varPropsToSem_varProps (vp : Var × Sem.Props) (h : sortPlain vp.1.sort) :
    varPropsToSem (varStr vp.1, propsTo vp.2) = some vp := by
  simp only [varPropsToSem, parseVar_varStr _ h, propsOf_propsTo, Option.map_some]

/-- Sem.MRS → C01.MRS → Sem.MRS is the identity on MRSs whose variables are spelled plainly -/
theorem toSem_ofSem (g : GraphInfo) (m : Sem.MRS) (hv : VarsPlain m) (hc : NoCargRole m) :
    toSem (ofSem g m) = some m := by
  obtain ⟨top, index, rels, hcons, icons, vars⟩ := m
  obtain ⟨h1, h2, h3, h4, h5, h6⟩ := hv
  simp only at h1 h2 h3 h4 h5 h6
  have hc' : ∀ e ∈ rels, ∀ a ∈ e.args, a.1.toList ≠ C01.CARG := hc
  have e1 := optVar_map_varStr top h1
  have e2 := optVar_map_varStr index h2
  have e3 : mapMOpt epToSem (rels.map epOfSem) = some rels :=
    mapMOpt_map _ _ _ (fun e he => epToSem_epOfSem e (h3 e he) (hc' e he))
  have e4 : mapMOpt hconsToSem (hcons.map (fun c : Sem.HCons => (⟨varStr c.hi, c.rel.toList, varStr c.lo⟩ : C01.Cons)))
      = some hcons := mapMOpt_map _ _ _ (fun c hm => hconsToSem_hcons c (h4 c hm))
  have e5 : mapMOpt iconsToSem (icons.map (fun c : Sem.ICons => (⟨varStr c.left, c.rel.toList, varStr c.right⟩ : C01.Cons)))
      = some icons := mapMOpt_map _ _ _ (fun c hm => iconsToSem_icons c (h5 c hm))
  have e6 : mapMOpt varPropsToSem (vars.map (fun vp : Var × Sem.Props => (varStr vp.1, propsTo vp.2)))
      = some vars := mapMOpt_map _ _ _ (fun vp hm => varPropsToSem_varProps vp (h6 vp hm))
  simp only [toSem, ofSem, e1, e2, e3, e4, e5, e6]

theorem graphInfoOf_ofSem (g : GraphInfo) (m : Sem.MRS) : graphInfoOf (ofSem g m) = g := by
  obtain ⟨a, b, c⟩ := g
  rfl

end Verif.Integration
