/-
Integration layer — the output of C04's `fromMrs`, seen through the adapter `toC02`, satisfies the
hypotheses of C02's round-trip theorems (well-formedness, expressibility in SimpleDMRS / DMRX / DMRS-JSON,
`NoTypeU`) and the views of the three formats are the identity on it under hypotheses on the SOURCE MRS.

Core Lean only.
-/
import Verif.Integration.Adapt
import Verif.C04.Props
import Verif.C02.Props

namespace Verif.Integration
open Verif.Codec Verif.Sem

/-! ## origin of nodes and links -/

/-- every node of `fromMrs m` comes from a predication of `m` -/
theorem node_origin (m : MRS) (hN : C04.BaseIdsDistinct m) (d : DMRS) (h : C04.fromMrs m = .ok d) :
    ∀ n ∈ d.nodes, ∃ i e, m.rels[i]? = some e ∧ n.id = C04.nidAt i ∧ n.predicate = e.predicate ∧
      n.carg = e.carg ∧ n.lnk = e.lnk ∧ n.surface = e.surface ∧ n.base = e.base ∧
      ((e.isQuantifier = true ∧ n.type = none ∧ n.properties = []) ∨
       (e.isQuantifier = false ∧ ∃ v, e.iv = some v ∧ n.type = some v.sort ∧ n.properties = m.props v) ∨
       (e.isQuantifier = false ∧ e.iv = none ∧ n.type = some C04.UNSPECIFIC ∧ n.properties = [])) := by
  intro n hn
  obtain ⟨hlen, hsh⟩ := C04.nodes_shape m hN d h
  obtain ⟨i, hi⟩ := List.mem_iff_getElem?.mp hn
  have hlt : i < m.rels.length := by
    rw [← hlen]; exact (List.getElem?_eq_some_iff.mp hi).1
  have he : m.rels[i]? = some m.rels[i] := List.getElem?_eq_getElem hlt
  obtain ⟨n', hn', h1, h2, h3, h4, h5, h6, hq, hnq, hnone⟩ := hsh i m.rels[i] he
  rw [hi] at hn'
  simp only [Option.some.injEq] at hn'
  subst hn'
  refine ⟨i, m.rels[i], he, h1, h2, h3, h4, h5, h6, ?_⟩
  cases hqe : (m.rels[i]).isQuantifier with
  | true => exact Or.inl ⟨rfl, hq hqe⟩
  | false =>
    cases hiv : (m.rels[i]).iv with
    | some v => exact Or.inr (Or.inl ⟨rfl, v, rfl, hnq hqe v hiv⟩)
    | none => exact Or.inr (Or.inr ⟨rfl, rfl, hnone hqe hiv⟩)

theorem predAt_some (m : MRS) (n : Int) (p : Pred) (h : C04.predAt m n = some p) :
    C04.FIRST_NODE_ID ≤ n ∧ p ∈ m.preds ∧ p.2 ∈ m.rels := by
  unfold C04.predAt at h
  by_cases hc : C04.FIRST_NODE_ID ≤ n
  · rw [if_pos hc] at h
    have hp : p ∈ m.preds := List.mem_of_getElem? h
    refine ⟨hc, hp, ?_⟩
    unfold MRS.preds at hp
    obtain ⟨a, b⟩ := p
    exact (List.of_mem_zip hp).2
  · rw [if_neg hc] at h; simp at h

theorem mem_args_of_mem_outArgs (e : EP) (t : Option String) (a : Role × Var)
    (h : a ∈ e.outArgs t) : a ∈ e.args := by
  unfold EP.outArgs at h
  exact (List.mem_filter.mp h).1

/-- every link of `fromMrs m` starts at a real node id, carries a role of `m` (or `MOD`) and one of the four posts -/
theorem link_origin (m : MRS) (hN : C04.BaseIdsDistinct m) (d : DMRS) (h : C04.fromMrs m = .ok d) :
    ∀ l ∈ d.links, C04.FIRST_NODE_ID ≤ l.start ∧
      (l.role = C04.BARE_EQ_ROLE ∨ ∃ e ∈ m.rels, ∃ a ∈ e.args, a.1 = l.role) ∧
      (l.post = EQ_POST ∨ l.post = C04.NEQ_POST ∨ l.post = H_POST ∨ l.post = HEQ_POST) := by
  intro l hl
  obtain ⟨reps, hreps⟩ := MRS.representatives_total m
  have hj := C04.links_justified m hN reps d hreps h l hl
  cases hj with
  | nonscopal src tgt v hs ht harg htq hiv hpost =>
    obtain ⟨h1, _, h3⟩ := predAt_some m _ _ hs
    refine ⟨h1, Or.inr ⟨src.2, h3, _, mem_args_of_mem_outArgs _ _ _ harg, rfl⟩, ?_⟩
    split at hpost
    · exact Or.inl hpost
    · exact Or.inr (Or.inl hpost)
  | qeq src tgt v hc rest hs ht harg hniv hhc hhi hrep hpost =>
    obtain ⟨h1, _, h3⟩ := predAt_some m _ _ hs
    exact ⟨h1, Or.inr ⟨src.2, h3, _, mem_args_of_mem_outArgs _ _ _ harg, rfl⟩,
      Or.inr (Or.inr (Or.inl hpost))⟩
  | lheq src tgt v rest hs ht harg hniv hnohc hrep hpost =>
    obtain ⟨h1, _, h3⟩ := predAt_some m _ _ hs
    exact ⟨h1, Or.inr ⟨src.2, h3, _, mem_args_of_mem_outArgs _ _ _ harg, rfl⟩,
      Or.inr (Or.inr (Or.inr hpost))⟩
  | mod src tgt lbl rest hs ht hrep hsrc hrole hpost =>
    obtain ⟨h1, _, _⟩ := predAt_some m _ _ hs
    exact ⟨h1, Or.inl hrole, Or.inl hpost⟩

theorem toC02_wf (g : GraphInfo) (m : MRS) (hN : C04.BaseIdsDistinct m) (d : DMRS)
    (h : C04.fromMrs m = .ok d) : (toC02 g d).WF := by
  intro l hl
  simp only [toC02, List.mem_map] at hl
  obtain ⟨l', hl', rfl⟩ := hl
  obtain ⟨h1, _⟩ := link_origin m hN d h l' hl'
  have h0 : C02.TOP_NODE_ID = 0 := by decide
  simp only [linkToC02, h0]
  unfold C04.FIRST_NODE_ID at h1
  omega

/-! ## generic helpers -/

theorem nodup_map_on {α β : Type} {f : α → β} {l : List α}
    (hf : ∀ a ∈ l, ∀ b ∈ l, f a = f b → a = b) (hnd : l.Nodup) : (l.map f).Nodup := by
  unfold List.Nodup
  rw [List.pairwise_map]
  exact List.Pairwise.imp_of_mem (fun ha hb hab h => hab (hf _ ha _ hb h)) hnd

theorem ivAll_some {e : EP} {p : Var → Prop} {v : Var} (hiv : e.iv = some v) (h : ivAll e p) : p v := by
  unfold ivAll at h; rw [hiv] at h; exact h

theorem props_cases (m : MRS) (v : Var) :
    m.props v = [] ∨ ∃ vp ∈ m.variables, vp.2 = m.props v := by
  unfold MRS.props
  cases hl : dlookup v m.variables with
  | none => exact Or.inl rfl
  | some ps => exact Or.inr ⟨(v, ps), dlookup_mem hl, rfl⟩

/-- the properties of a node of `fromMrs m` are empty or one of the property maps of `m` -/
theorem node_props_origin (m : MRS) (hN : C04.BaseIdsDistinct m) (d : DMRS) (h : C04.fromMrs m = .ok d) :
    ∀ n ∈ d.nodes, n.properties = [] ∨ ∃ vp ∈ m.variables, vp.2 = n.properties := by
  intro n hn
  obtain ⟨i, e, _, _, _, _, _, _, _, hc⟩ := node_origin m hN d h n hn
  rcases hc with ⟨_, _, hp⟩ | ⟨_, v, _, _, hp⟩ | ⟨_, _, _, hp⟩
  · exact Or.inl hp
  · rw [hp]; exact props_cases m v
  · exact Or.inl hp

theorem mem_propsTo {ps : Sem.Props} {kv : Str × Str} (h : kv ∈ propsTo ps) :
    ∃ kv' ∈ ps, kv = (kv'.1.toList, kv'.2.toList) := by
  unfold propsTo at h
  obtain ⟨kv', h1, h2⟩ := List.mem_map.mp h
  exact ⟨kv', h1, h2.symm⟩

theorem keysNodup_propsTo (ps : Sem.Props) (h : (ps.map (·.1)).Nodup) : C02.KeysNodup (propsTo ps) := by
  unfold C02.KeysNodup propsTo
  rw [List.map_map]
  have : ((fun x : Str × Str => x.1) ∘ fun kv : String × String => (kv.1.toList, kv.2.toList)) =
      String.toList ∘ (fun kv : String × String => kv.1) := rfl
  rw [this, ← List.map_map]
  exact nodup_map_on (fun a _ b _ hab => String.toList_injective hab) h

/-! ## ASCII case mapping -/

theorem toNat_ofNat_small (n : Nat) (h : n < 55296) : (Char.ofNat n).toNat = n := by
  have hv : n.isValidChar := Or.inl h
  simp [Char.ofNat, hv, Char.toNat, Char.ofNatAux]

theorem upperC_lowerC (c : Char) : C02.upperC (C02.lowerC c) = C02.upperC c := by
  unfold C02.lowerC
  split
  · next h =>
    have h1 : (Char.ofNat (c.toNat + 32)).toNat = c.toNat + 32 := toNat_ofNat_small _ (by omega)
    unfold C02.upperC
    rw [h1]
    have : 97 ≤ c.toNat + 32 ∧ c.toNat + 32 ≤ 122 := by omega
    rw [if_pos this, if_neg (by omega)]
    simp [Char.ofNat_toNat]
  · rfl

theorem upper_lower (s : Str) : C02.upper (C02.lower s) = C02.upper s := by
  unfold C02.upper C02.lower
  rw [List.map_map]
  apply List.map_congr_left
  intro c _
  exact upperC_lowerC c

theorem upper_lower_of_upper {s : Str} (h : C02.upper s = s) : C02.upper (C02.lower s) = s := by
  rw [upper_lower, h]

theorem lower_inj_on_upper {a b : Str} (ha : C02.upper a = a) (hb : C02.upper b = b)
    (h : C02.lower a = C02.lower b) : a = b := by
  rw [← upper_lower_of_upper ha, ← upper_lower_of_upper hb, h]

theorem lowerKeysNodup_propsTo (ps : Sem.Props) (h : (ps.map (·.1)).Nodup)
    (hu : ∀ kv ∈ ps, C02.upper kv.1.toList = kv.1.toList) :
    ((propsTo ps).map (fun kv => C02.lower kv.1)).Nodup := by
  unfold propsTo
  rw [List.map_map]
  have : ((fun kv : Str × Str => C02.lower kv.1) ∘ fun kv : String × String => (kv.1.toList, kv.2.toList)) =
      (fun k : String => C02.lower k.toList) ∘ (fun kv : String × String => kv.1) := rfl
  rw [this, ← List.map_map]
  apply nodup_map_on _ h
  intro a ha b hb hab
  obtain ⟨kva, hkva, rfl⟩ := List.mem_map.mp ha
  obtain ⟨kvb, hkvb, rfl⟩ := List.mem_map.mp hb
  exact String.toList_injective (lower_inj_on_upper (hu _ hkva) (hu _ hkvb) hab)

/-! ## the hypotheses of the C02 round-trip theorems -/

theorem mem_toC02_nodes {g : GraphInfo} {d : DMRS} {n : C02.Node} (h : n ∈ (toC02 g d).nodes) :
    ∃ n' ∈ d.nodes, n = nodeToC02 n' := by
  simp only [toC02, List.mem_map] at h
  obtain ⟨n', h1, h2⟩ := h
  exact ⟨n', h1, h2.symm⟩

theorem mem_toC02_links {g : GraphInfo} {d : DMRS} {l : C02.Link} (h : l ∈ (toC02 g d).links) :
    ∃ l' ∈ d.links, l = linkToC02 l' := by
  simp only [toC02, List.mem_map] at h
  obtain ⟨l', h1, h2⟩ := h
  exact ⟨l', h1, h2.symm⟩

/-- role names of the links are not empty when those of `m` are not -/
theorem link_role_ne (m : MRS) (hN : C04.BaseIdsDistinct m)
    (hR : ∀ e ∈ m.rels, ∀ a ∈ e.args, a.1 ≠ "") (d : DMRS) (h : C04.fromMrs m = .ok d) :
    ∀ l ∈ d.links, (linkToC02 l).role ≠ some [] := by
  intro l hl
  obtain ⟨_, hr, _⟩ := link_origin m hN d h l hl
  simp only [linkToC02, ne_eq, Option.some.injEq, String.toList_eq_nil_iff]
  rcases hr with hr | ⟨e, he, a, ha, hr⟩
  · rw [hr]; decide
  · rw [← hr]; exact hR e he a ha

theorem link_post_ne (m : MRS) (hN : C04.BaseIdsDistinct m) (d : DMRS) (h : C04.fromMrs m = .ok d) :
    ∀ l ∈ d.links, (linkToC02 l).post ≠ some [] := by
  intro l hl
  obtain ⟨_, _, hp⟩ := link_origin m hN d h l hl
  simp only [linkToC02, ne_eq, Option.some.injEq, String.toList_eq_nil_iff]
  rcases hp with hp | hp | hp | hp <;> rw [hp] <;> decide

theorem toC02_expressibleSD (g : GraphInfo) (m : MRS) (hN : C04.BaseIdsDistinct m)
    (hD : PropsAreDicts m) (hS : SDStrings m) (d : DMRS) (h : C04.fromMrs m = .ok d) :
    C02.ExpressibleSD (toC02 g d) := by
  constructor
  · intro n hn
    obtain ⟨n', hn', rfl⟩ := mem_toC02_nodes hn
    have hprops : C02.KeysNodup (propsTo n'.properties) ∧
        (∀ kv ∈ propsTo n'.properties, C02.upper kv.1 = kv.1) ∧
        (∀ kv ∈ propsTo n'.properties, C02.lower kv.2 = kv.2) := by
      rcases node_props_origin m hN d h n' hn' with hp | ⟨vp, hvp, hp⟩
      · rw [hp]; simp [propsTo, C02.KeysNodup]
      · rw [← hp]
        refine ⟨keysNodup_propsTo _ (hD vp hvp), ?_, ?_⟩
        · intro kv hkv
          obtain ⟨kv', hkv', rfl⟩ := mem_propsTo hkv
          exact (hS.2 vp hvp kv' hkv').1
        · intro kv hkv
          obtain ⟨kv', hkv', rfl⟩ := mem_propsTo hkv
          exact (hS.2 vp hvp kv' hkv').2
    refine ⟨hprops.1, hprops.2.1, hprops.2.2, ?_⟩
    obtain ⟨i, e, he, _, _, _, _, _, _, hc⟩ := node_origin m hN d h n' hn'
    have hem : e ∈ m.rels := List.mem_of_getElem? he
    simp only [nodeToC02]
    rcases hc with ⟨_, ht, _⟩ | ⟨_, v, hiv, ht, _⟩ | ⟨_, _, ht, _⟩
    · rw [ht]; simp
    · rw [ht]
      have := ivAll_some hiv (hS.1 e hem).2
      simp only [Option.map_some, ne_eq, Option.some.injEq, String.toList_eq_nil_iff]
      exact this
    · rw [ht]; decide
  · intro l hl
    obtain ⟨l', hl', rfl⟩ := mem_toC02_links hl
    refine ⟨link_role_ne m hN (fun e he => (hS.1 e he).1) d h l' hl', ?_⟩
    simp [linkToC02]

theorem toC02_expressibleX (g : GraphInfo) (m : MRS) (hN : C04.BaseIdsDistinct m)
    (hD : PropsAreDicts m) (hS : XStrings m) (d : DMRS) (h : C04.fromMrs m = .ok d) :
    C02.ExpressibleX (toC02 g d) := by
  constructor
  · intro n hn
    obtain ⟨n', hn', rfl⟩ := mem_toC02_nodes hn
    obtain ⟨i, e, he, _, hpred, _, _, _, _, hc⟩ := node_origin m hN d h n' hn'
    have hem : e ∈ m.rels := List.mem_of_getElem? he
    have hprops : ((propsTo n'.properties).map (fun kv => C02.lower kv.1)).Nodup ∧
        (∀ kv ∈ propsTo n'.properties, C02.upper (C02.lower kv.1) = kv.1) ∧
        (∀ kv ∈ propsTo n'.properties, C02.lower kv.1 ≠ C02.CVARSORT) ∧
        (∀ kv ∈ propsTo n'.properties, C02.lower kv.2 = kv.2) := by
      rcases node_props_origin m hN d h n' hn' with hp | ⟨vp, hvp, hp⟩
      · rw [hp]; simp [propsTo]
      · rw [← hp]
        refine ⟨lowerKeysNodup_propsTo _ (hD vp hvp) (fun kv hkv => (hS.2 vp hvp kv hkv).1), ?_, ?_, ?_⟩
        · intro kv hkv
          obtain ⟨kv', hkv', rfl⟩ := mem_propsTo hkv
          exact upper_lower_of_upper (hS.2 vp hvp kv' hkv').1
        · intro kv hkv
          obtain ⟨kv', hkv', rfl⟩ := mem_propsTo hkv
          exact (hS.2 vp hvp kv' hkv').2.1
        · intro kv hkv
          obtain ⟨kv', hkv', rfl⟩ := mem_propsTo hkv
          exact (hS.2 vp hvp kv' hkv').2.2
    obtain ⟨hx1, hx2, hx3, hx4⟩ := hS.1 e hem
    refine ⟨?_, ?_, hprops.1, hprops.2.1, hprops.2.2.1, hprops.2.2.2, ?_⟩
    · simp only [nodeToC02]; rw [hpred]; exact hx1
    · simp only [nodeToC02, ne_eq, String.toList_eq_nil_iff]; rw [hpred]; exact hx2
    · intro t ht
      simp only [nodeToC02] at ht
      rcases hc with ⟨_, hty, _⟩ | ⟨_, v, hiv, hty, _⟩ | ⟨_, _, hty, _⟩
      · rw [hty] at ht; simp at ht
      · rw [hty] at ht
        simp only [Option.map_some, Option.some.injEq] at ht
        subst ht
        exact ivAll_some hiv hx4
      · rw [hty] at ht
        simp only [Option.map_some, Option.some.injEq] at ht
        subst ht
        decide
  · intro l hl
    obtain ⟨l', hl', rfl⟩ := mem_toC02_links hl
    exact ⟨link_role_ne m hN (fun e he => (hS.1 e he).2.2.1) d h l' hl', link_post_ne m hN d h l' hl'⟩

theorem toC02_expressibleJ (g : GraphInfo) (m : MRS) (hN : C04.BaseIdsDistinct m)
    (hD : PropsAreDicts m) (hS : JStrings m) (d : DMRS) (h : C04.fromMrs m = .ok d) :
    C02.ExpressibleJ (toC02 g d) := by
  intro n hn
  obtain ⟨n', hn', rfl⟩ := mem_toC02_nodes hn
  simp only [nodeToC02]
  rcases node_props_origin m hN d h n' hn' with hp | ⟨vp, hvp, hp⟩
  · rw [hp]; constructor <;> simp [propsTo, C02.KeysNodup]
  · rw [← hp]
    refine ⟨keysNodup_propsTo _ (hD vp hvp), ?_⟩
    intro kv hkv
    obtain ⟨kv', hkv', rfl⟩ := mem_propsTo hkv
    exact hS vp hvp kv' hkv'

theorem toC02_noTypeU (g : GraphInfo) (m : MRS) (hN : C04.BaseIdsDistinct m) (hU : NoUSort m)
    (d : DMRS) (h : C04.fromMrs m = .ok d) : C02.NoTypeU (toC02 g d) := by
  intro n hn
  obtain ⟨n', hn', rfl⟩ := mem_toC02_nodes hn
  obtain ⟨i, e, he, _, _, _, _, _, _, hc⟩ := node_origin m hN d h n' hn'
  have hem : e ∈ m.rels := List.mem_of_getElem? he
  simp only [nodeToC02, C02.S]
  rcases hc with ⟨_, ht, _⟩ | ⟨hq, v, hiv, ht, _⟩ | ⟨hq, hiv, _, _⟩
  · rw [ht]; simp
  · rw [ht]
    simp only [Option.map_some, ne_eq, Option.some.injEq, String.toList_inj]
    rcases hU e hem with hq' | ⟨_, hs⟩
    · rw [hq] at hq'; simp at hq'
    · exact ivAll_some hiv hs
  · rcases hU e hem with hq' | ⟨hs, _⟩
    · rw [hq] at hq'; simp at hq'
    · rw [hiv] at hs; simp at hs

/-! ## the views of the three formats are the identity on the converted graph -/

/-- SimpleDMRS keeps everything of the converted graph when no predication has a surface string / base form -/
theorem keptS_toC02 (g : GraphInfo) (hg : g.lnk = .unspec ∨ g.lnk.truthy = true) (m : MRS)
    (hN : C04.BaseIdsDistinct m) (hB : NoSurfaceBase m) (d : DMRS) (h : C04.fromMrs m = .ok d) :
    C02.keptS ⟨true, true⟩ (toC02 g d) = toC02 g d := by
  have hnodes : (d.nodes.map nodeToC02).map (C02.keptNodeS ⟨true, true⟩) = d.nodes.map nodeToC02 := by
    rw [List.map_map]
    apply List.map_congr_left
    intro n hn
    obtain ⟨i, e, he, _, _, _, _, hs, hb, _⟩ := node_origin m hN d h n hn
    have hem : e ∈ m.rels := List.mem_of_getElem? he
    obtain ⟨h1, h2⟩ := hB e hem
    rw [h1] at hs; rw [h2] at hb
    simp [C02.keptNodeS, nodeToC02, hs, hb]
  have hlnk : (if ((⟨true, true⟩ : C02.Opts).lnk && (toC02 g d).lnk.truthy) = true then (toC02 g d).lnk
      else Lnk.unspec) = (toC02 g d).lnk := by
    have : (toC02 g d).lnk = g.lnk := rfl
    rw [this]
    rcases hg with hg | hg
    · rw [hg]; simp
    · rw [hg]; simp
  unfold C02.keptS
  rw [show (toC02 g d).nodes.map (C02.keptNodeS ⟨true, true⟩) = (toC02 g d).nodes from hnodes, hlnk]
  rfl

theorem lnkOf_view (o : Option (Int × Int)) (h : o ≠ some (-1, -1)) :
    lnkOf o = .unspec ∨ ∃ a b, lnkOf o = .charspan a b ∧ ¬ (a = -1 ∧ b = -1) := by
  cases o with
  | none => exact Or.inl rfl
  | some ab =>
    obtain ⟨a, b⟩ := ab
    refine Or.inr ⟨a, b, rfl, ?_⟩
    rintro ⟨rfl, rfl⟩
    exact h rfl

theorem viewLnkJ_id (l : Lnk) (h : l = .unspec ∨ ∃ a b, l = .charspan a b ∧ ¬ (a = -1 ∧ b = -1)) :
    C02.viewLnkJ l = l := by
  rcases h with h | ⟨a, b, h, hab⟩
  · subst h; simp [C02.viewLnkJ, Lnk.truthy]
  · subst h
    have : (Lnk.charspan a b).truthy = true := by
      simp only [Lnk.truthy]
      by_cases ha : a = -1 <;> by_cases hb : b = -1 <;> simp_all
    simp [C02.viewLnkJ, this, Lnk.cfrom, Lnk.cto]

/-- DMRS-JSON keeps everything when no alignment is `<-1:-1>` -/
theorem viewJ_toC02 (g : GraphInfo)
    (hg : g.lnk = .unspec ∨ ∃ a b, g.lnk = .charspan a b ∧ ¬ (a = -1 ∧ b = -1)) (m : MRS)
    (hN : C04.BaseIdsDistinct m) (hL : LnkTruthy m) (d : DMRS) (h : C04.fromMrs m = .ok d) :
    C02.viewJ ⟨true, true⟩ (toC02 g d) = toC02 g d := by
  have hnodes : (d.nodes.map nodeToC02).map (C02.viewNodeJ ⟨true, true⟩) = d.nodes.map nodeToC02 := by
    rw [List.map_map]
    apply List.map_congr_left
    intro n hn
    obtain ⟨i, e, he, _, _, _, hl, _, _, _⟩ := node_origin m hN d h n hn
    have hem : e ∈ m.rels := List.mem_of_getElem? he
    apply C02.viewNodeJ_id
    simp only [nodeToC02]
    rw [hl]
    exact lnkOf_view _ (hL e hem)
  have hidx : ∀ n, d.index = some n → n ≠ 0 := by
    intro n hi
    obtain ⟨_, j, _, _, _, _, _, rfl⟩ := (C04.index_shape m d h).1 n hi
    unfold C04.nidAt C04.FIRST_NODE_ID; omega
  simp only [C02.viewJ, toC02, hnodes, viewLnkJ_id g.lnk hg, if_true]
  cases hi : d.index with
  | none => rfl
  | some n => simp [hidx n hi]

/-- DMRX keeps everything when every predication (and the graph) is aligned -/
theorem viewX_toC02 (g : GraphInfo) (hg : ∃ a b, g.lnk = .charspan a b) (m : MRS)
    (hN : C04.BaseIdsDistinct m) (hA : AllAligned m) (d : DMRS) (h : C04.fromMrs m = .ok d) :
    C02.viewX ⟨true, true⟩ (toC02 g d) = toC02 g d := by
  have hnodes : (d.nodes.map nodeToC02).map (C02.viewNodeX ⟨true, true⟩) = d.nodes.map nodeToC02 := by
    rw [List.map_map]
    apply List.map_congr_left
    intro n hn
    obtain ⟨i, e, he, _, _, _, hl, _, _, _⟩ := node_origin m hN d h n hn
    have hem : e ∈ m.rels := List.mem_of_getElem? he
    have hs := hA e hem
    rw [← hl] at hs
    obtain ⟨id, pred, type, props, carg, lnk, surface, base⟩ := n
    simp only at hs
    cases lnk with
    | none => simp at hs
    | some ab =>
      obtain ⟨a, b⟩ := ab
      simp [C02.viewNodeX, nodeToC02, lnkOf, Lnk.cfrom, Lnk.cto]
  obtain ⟨a, b, hg⟩ := hg
  have hlnk : Lnk.charspan g.lnk.cfrom g.lnk.cto = g.lnk := by
    rw [hg]; simp [Lnk.cfrom, Lnk.cto]
  simp only [C02.viewX, toC02, hnodes, hlnk, if_true]

end Verif.Integration
