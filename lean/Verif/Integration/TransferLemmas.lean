/-
Integration layer — the hypotheses of the composition theorems are invariant under the harmless differences
between a source MRS and what the SimpleMRS decoder returns for its encoding (`MRSSim`): the arguments of a
predication are re-ordered, property maps are rebuilt (empty, or a permutation of the original), alignments /
surface strings / base forms may be lost.

Core Lean only.
-/
import Verif.Integration.Adapt
import Verif.Integration.AdaptLemmas
import Verif.C04.Lemmas
import Verif.C05.ExprLemmas
import Verif.C01.StableLemmas

namespace Verif.Integration
open Verif.Codec Verif.Sem

/-- pointwise relation of two lists (core Lean has no `Forall₂`; same definition as in Batteries, kept in
this namespace so that it cannot clash with it) -/
inductive Forall₂ {α β : Type} (R : α → β → Prop) : List α → List β → Prop
  | nil : Forall₂ R [] []
  | cons {a : α} {b : β} {l₁ : List α} {l₂ : List β} :
    R a b → Forall₂ R l₁ l₂ → Forall₂ R (a :: l₁) (b :: l₂)

/-- `e'` is `e` up to the order of its arguments and optional loss of lnk / surface / base -/
def EPSim (e e' : EP) : Prop :=
  e'.predicate = e.predicate ∧ e'.label = e.label ∧ e'.args.Perm e.args ∧ e'.carg = e.carg ∧
  (e'.lnk = e.lnk ∨ e'.lnk = none) ∧ (e'.surface = e.surface ∨ e'.surface = none) ∧
  (e'.base = e.base ∨ e'.base = none)

/-- `m'` is `m` up to argument order inside predications, rebuilt property maps (each one empty or a
permutation of an original one, the FIRST binding of that variable in `m.variables`) and lost alignments /
strings -/
structure MRSSim (m m' : MRS) : Prop where
  top : m'.top = m.top
  index : m'.index = m.index
  hcons : m'.hcons = m.hcons
  icons : m'.icons = m.icons
  rels : Forall₂ EPSim m.rels m'.rels
  vars : ∀ vp' ∈ m'.variables, vp'.2 = [] ∨ ∃ ps, dlookup vp'.1 m.variables = some ps ∧ vp'.2.Perm ps

/-! ## generic helpers -/

/-- a dictionary lookup does not depend on the order of the entries when no key occurs twice -/
theorem tr_dlookup_perm {κ ν : Type} [DecidableEq κ] (k : κ) {l l' : List (κ × ν)} (h : l'.Perm l)
    (hn : (l.map (·.1)).Nodup) : dlookup k l' = dlookup k l := by
  induction h with
  | nil => rfl
  | cons x h ih =>
    obtain ⟨k', v⟩ := x
    simp only [List.map_cons, List.nodup_cons] at hn
    simp only [dlookup, ih hn.2]
  | swap x y l =>
    obtain ⟨kx, vx⟩ := x
    obtain ⟨ky, vy⟩ := y
    simp only [List.map_cons, List.nodup_cons, List.mem_cons, not_or] at hn
    simp only [dlookup]
    by_cases h1 : ky = k
    · have h2 : kx ≠ k := fun e => hn.1.1 (e.trans h1.symm)
      simp only [h1, h2, if_true, if_false]
    · simp only [h1, if_false]
  | trans h1 h2 ih1 ih2 =>
    rw [ih1 ((h2.map _).nodup_iff.mpr hn), ih2 hn]

theorem tr_forall₂_map_eq {α β γ : Type} {R : α → β → Prop} {f : α → γ} {g : β → γ} {l : List α}
    {l' : List β} (h : Forall₂ R l l') (hf : ∀ a b, a ∈ l → R a b → g b = f a) :
    l'.map g = l.map f := by
  induction h with
  | nil => rfl
  | cons hab _ ih =>
    rw [List.map_cons, List.map_cons, hf _ _ List.mem_cons_self hab,
      ih (fun a b ha => hf a b (List.mem_cons_of_mem _ ha))]

theorem tr_forall₂_all_eq {α β : Type} {R : α → β → Prop} {f : α → Bool} {g : β → Bool} {l : List α}
    {l' : List β} (h : Forall₂ R l l') (hf : ∀ a b, a ∈ l → R a b → g b = f a) :
    l'.all g = l.all f := by
  induction h with
  | nil => rfl
  | cons hab _ ih =>
    rw [List.all_cons, List.all_cons, hf _ _ List.mem_cons_self hab,
      ih (fun a b ha => hf a b (List.mem_cons_of_mem _ ha))]

theorem tr_forall₂_filterMap_eq {α β γ : Type} {R : α → β → Prop} {f : α → Option γ} {g : β → Option γ}
    {l : List α} {l' : List β} (h : Forall₂ R l l') (hf : ∀ a b, a ∈ l → R a b → g b = f a) :
    l'.filterMap g = l.filterMap f := by
  induction h with
  | nil => rfl
  | cons hab _ ih =>
    rw [List.filterMap_cons, List.filterMap_cons, hf _ _ List.mem_cons_self hab,
      ih (fun a b ha => hf a b (List.mem_cons_of_mem _ ha))]

theorem tr_forall₂_mem_right {α β : Type} {R : α → β → Prop} {l : List α} {l' : List β}
    (h : Forall₂ R l l') : ∀ b ∈ l', ∃ a ∈ l, R a b := by
  induction h with
  | nil => intro b hb; cases hb
  | cons hab _ ih =>
    intro b hb
    rcases List.mem_cons.mp hb with rfl | hb
    · exact ⟨_, List.mem_cons_self, hab⟩
    · obtain ⟨a, ha, hr⟩ := ih b hb
      exact ⟨a, List.mem_cons_of_mem _ ha, hr⟩

theorem tr_forall₂_mem_left {α β : Type} {R : α → β → Prop} {l : List α} {l' : List β}
    (h : Forall₂ R l l') : ∀ a ∈ l, ∃ b ∈ l', R a b := by
  induction h with
  | nil => intro a ha; cases ha
  | cons hab _ ih =>
    intro a ha
    rcases List.mem_cons.mp ha with rfl | ha
    · exact ⟨_, List.mem_cons_self, hab⟩
    · obtain ⟨b, hb, hr⟩ := ih a ha
      exact ⟨b, List.mem_cons_of_mem _ hb, hr⟩

/-! ## predications -/

theorem EPSim.iv {e e' : EP} (h : EPSim e e') (hR : (e.args.map (·.1)).Nodup) : e'.iv = e.iv := by
  unfold EP.iv
  exact tr_dlookup_perm _ h.2.2.1 hR

theorem EPSim.isQuantifier {e e' : EP} (h : EPSim e e') : e'.isQuantifier = e.isQuantifier := by
  unfold EP.isQuantifier
  exact h.2.2.1.any_eq

theorem EPSim.baseId {e e' : EP} (h : EPSim e e') (hR : (e.args.map (·.1)).Nodup) :
    e'.baseId = e.baseId := by
  unfold EP.baseId
  rw [h.iv hR, h.isQuantifier]

theorem EPSim.mem_args {e e' : EP} (h : EPSim e e') (a : Role × Var) : a ∈ e'.args ↔ a ∈ e.args :=
  h.2.2.1.mem_iff

theorem EPSim.ivAll {e e' : EP} (h : EPSim e e') (hR : (e.args.map (·.1)).Nodup) (p : Var → Prop) :
    ivAll e' p ↔ ivAll e p := by
  unfold Verif.Integration.ivAll
  rw [h.iv hR]

/-- every predication of `m'` comes from one of `m` -/
theorem MRSSim.rel_of {m m' : MRS} (h : MRSSim m m') : ∀ e' ∈ m'.rels, ∃ e ∈ m.rels, EPSim e e' :=
  tr_forall₂_mem_right h.rels

/-- a statement about every property of every variable is inherited -/
theorem MRSSim.props_forall {m m' : MRS} (h : MRSSim m m') (P : String × String → Prop)
    (hP : ∀ vp ∈ m.variables, ∀ kv ∈ vp.2, P kv) : ∀ vp ∈ m'.variables, ∀ kv ∈ vp.2, P kv := by
  intro vp' hvp' kv hkv
  rcases h.vars vp' hvp' with h0 | ⟨ps, hl, hp⟩
  · rw [h0] at hkv; cases hkv
  · exact hP (vp'.1, ps) (dlookup_mem hl) kv (hp.mem_iff.mp hkv)

/-! ## the hypotheses of the composition theorems -/

theorem sim_baseIdsDistinct (m m' : MRS) (h : MRSSim m m')
    (hR : ∀ e ∈ m.rels, (e.args.map (·.1)).Nodup) (hN : C04.BaseIdsDistinct m) :
    C04.BaseIdsDistinct m' := by
  unfold C04.BaseIdsDistinct at hN ⊢
  rw [tr_forall₂_map_eq h.rels (fun a b ha hab => hab.baseId (hR a ha))]
  exact hN

theorem sim_propsAreDicts (m m' : MRS) (h : MRSSim m m') (hD : PropsAreDicts m) : PropsAreDicts m' := by
  intro vp' hvp'
  rcases h.vars vp' hvp' with h0 | ⟨ps, hl, hp⟩
  · rw [h0]; exact List.nodup_nil
  · exact ((hp.map _).nodup_iff).mpr (hD (vp'.1, ps) (dlookup_mem hl))

theorem sim_sdStrings (m m' : MRS) (h : MRSSim m m') (hR : ∀ e ∈ m.rels, (e.args.map (·.1)).Nodup)
    (hS : SDStrings m) : SDStrings m' := by
  refine ⟨?_, h.props_forall _ hS.2⟩
  intro e' he'
  obtain ⟨e, he, hs⟩ := h.rel_of e' he'
  have := hS.1 e he
  exact ⟨fun a ha => this.1 a ((hs.mem_args a).mp ha), (hs.ivAll (hR e he) _).mpr this.2⟩

theorem sim_xStrings (m m' : MRS) (h : MRSSim m m') (hR : ∀ e ∈ m.rels, (e.args.map (·.1)).Nodup)
    (hS : XStrings m) : XStrings m' := by
  refine ⟨?_, h.props_forall _ hS.2⟩
  intro e' he'
  obtain ⟨e, he, hs⟩ := h.rel_of e' he'
  obtain ⟨h1, h2, h3, h4⟩ := hS.1 e he
  rw [hs.1]
  exact ⟨h1, h2, fun a ha => h3 a ((hs.mem_args a).mp ha), (hs.ivAll (hR e he) _).mpr h4⟩

theorem sim_jStrings (m m' : MRS) (h : MRSSim m m') (hS : JStrings m) : JStrings m' :=
  h.props_forall _ hS

theorem sim_noUSort (m m' : MRS) (h : MRSSim m m') (hR : ∀ e ∈ m.rels, (e.args.map (·.1)).Nodup)
    (hU : NoUSort m) : NoUSort m' := by
  intro e' he'
  obtain ⟨e, he, hs⟩ := h.rel_of e' he'
  rw [hs.isQuantifier, hs.iv (hR e he), hs.ivAll (hR e he)]
  exact hU e he

theorem sim_ivsPlain (m m' : MRS) (h : MRSSim m m') (hR : ∀ e ∈ m.rels, (e.args.map (·.1)).Nodup)
    (hP : IVsPlain m) : IVsPlain m' := by
  intro e' he'
  obtain ⟨e, he, hs⟩ := h.rel_of e' he'
  exact (hs.ivAll (hR e he) _).mpr (hP e he)

theorem sim_hasCompleteIVs (m m' : MRS) (h : MRSSim m m')
    (hR : ∀ e ∈ m.rels, (e.args.map (·.1)).Nodup) : m'.hasCompleteIVs = m.hasCompleteIVs := by
  unfold MRS.hasCompleteIVs
  exact tr_forall₂_all_eq h.rels (fun a b ha hab => by rw [hab.isQuantifier, hab.iv (hR a ha)])

theorem sim_nonQuantIVs (m m' : MRS) (h : MRSSim m m')
    (hR : ∀ e ∈ m.rels, (e.args.map (·.1)).Nodup) : m'.nonQuantIVs = m.nonQuantIVs := by
  unfold MRS.nonQuantIVs
  exact tr_forall₂_filterMap_eq h.rels (fun a b ha hab => by rw [hab.isQuantifier, hab.iv (hR a ha)])

theorem sim_hasIVProperty_eq (m m' : MRS) (h : MRSSim m m')
    (hR : ∀ e ∈ m.rels, (e.args.map (·.1)).Nodup) : m'.hasIVProperty = m.hasIVProperty := by
  unfold MRS.hasIVProperty MRS.hasUniqueIVs
  rw [sim_hasCompleteIVs m m' h hR, sim_nonQuantIVs m m' h hR]

theorem sim_hasIVProperty (m m' : MRS) (h : MRSSim m m') (hR : ∀ e ∈ m.rels, (e.args.map (·.1)).Nodup)
    (hiv : m.hasIVProperty = true) : m'.hasIVProperty = true := by
  rw [sim_hasIVProperty_eq m m' h hR]; exact hiv

theorem sim_noReserved (m m' : MRS) (h : MRSSim m m') (hR : ∀ e ∈ m.rels, (e.args.map (·.1)).Nodup)
    (hnr : C05.NoReserved m) : C05.NoReserved m' := by
  intro e' he' v hv
  obtain ⟨e, he, hs⟩ := h.rel_of e' he'
  rw [hs.iv (hR e he)] at hv
  exact hnr e he v hv

theorem sim_expressibleM (m m' : MRS) (h : MRSSim m m') (hR : ∀ e ∈ m.rels, (e.args.map (·.1)).Nodup)
    (hx : C05.ExpressibleM m) : C05.ExpressibleM m' where
  preds := by
    intro e' he'
    obtain ⟨e, he, hs⟩ := h.rel_of e' he'
    rw [hs.1]; exact hx.preds e he
  roles := by
    intro e' he' a ha
    obtain ⟨e, he, hs⟩ := h.rel_of e' he'
    exact hx.roles e he a ((hs.mem_args a).mp ha)
  props := h.props_forall _ hx.props
  propsNodup := sim_propsAreDicts m m' h hx.propsNodup
  sorts := by
    intro e' he' v hv
    obtain ⟨e, he, hs⟩ := h.rel_of e' he'
    rw [hs.iv (hR e he)] at hv
    exact hx.sorts e he v hv

/-! # Part 2 — the decoded encoding of a shared-core MRS is similar to it -/

/-! ## C01 dictionaries: keys stay pairwise distinct -/

theorem tr_dget_ne_none_of_mem {β : Type} (d : C01.Dict β) (k : Str) (h : k ∈ d.map (·.1)) :
    C01.dget d k ≠ none := by
  induction d with
  | nil => cases h
  | cons a r ih =>
    obtain ⟨k', v'⟩ := a
    unfold C01.dget
    by_cases hk : k' = k
    · simp only [hk, if_true]; exact Option.some_ne_none _
    · simp only [hk, if_false]
      rcases List.mem_cons.mp h with h | h
      · exact absurd h.symm hk
      · exact ih h

theorem tr_not_mem_of_dget_none {β : Type} (d : C01.Dict β) (k : Str) (h : C01.dget d k = none) :
    k ∉ d.map (·.1) := fun hm => tr_dget_ne_none_of_mem d k hm h

theorem tr_dget_of_mem_nodup {β : Type} (d : C01.Dict β) (k : Str) (x : β)
    (hn : (d.map (·.1)).Nodup) (h : (k, x) ∈ d) : C01.dget d k = some x := by
  induction d with
  | nil => cases h
  | cons a r ih =>
    obtain ⟨k', v'⟩ := a
    rw [List.map_cons, List.nodup_cons] at hn
    unfold C01.dget
    rcases List.mem_cons.mp h with h | h
    · cases h; simp only [if_true]
    · have hk : k' ≠ k := fun e => hn.1 (e ▸ List.mem_map.mpr ⟨(k, x), h, rfl⟩)
      simp only [hk, if_false]
      exact ih hn.2 h

theorem tr_nodup_declare {β : Type} [Inhabited β] (d : C01.Dict β) (k : Str)
    (hn : (d.map (·.1)).Nodup) : ((C01.declare d k).map (·.1)).Nodup := by
  unfold C01.declare
  split
  · exact hn
  · rename_i hh
    have hnone : C01.dget d k = none := by
      unfold C01.dhas at hh
      cases hd : C01.dget d k with
      | none => rfl
      | some x => rw [hd] at hh; exact absurd rfl hh
    rw [List.map_append, List.nodup_append]
    refine ⟨hn, by simp, ?_⟩
    intro a ha b hb
    simp only [List.map_cons, List.map_nil, List.mem_singleton] at hb
    subst hb
    intro e
    exact tr_not_mem_of_dget_none d _ hnone (e ▸ ha)

theorem tr_mem_keys_dset {β : Type} (d : C01.Dict β) (k : Str) (x : β) (a : Str) :
    a ∈ (C01.dset d k x).map (·.1) ↔ a = k ∨ a ∈ d.map (·.1) := by
  induction d with
  | nil => simp [C01.dset]
  | cons p r ih =>
    obtain ⟨k', v'⟩ := p
    unfold C01.dset
    by_cases hk : k' = k
    · simp only [hk, if_true, List.map_cons, List.mem_cons]
      constructor
      · intro h; rcases h with h | h
        · exact Or.inl h
        · exact Or.inr (Or.inr h)
      · intro h; rcases h with h | h | h
        · exact Or.inl h
        · exact Or.inl h
        · exact Or.inr h
    · simp only [hk, if_false, List.map_cons, List.mem_cons, ih]
      constructor
      · intro h; rcases h with h | h | h
        · exact Or.inr (Or.inl h)
        · exact Or.inl h
        · exact Or.inr (Or.inr h)
      · intro h; rcases h with h | h | h
        · exact Or.inr (Or.inl h)
        · exact Or.inl h
        · exact Or.inr (Or.inr h)

theorem tr_nodup_dset {β : Type} (d : C01.Dict β) (k : Str) (x : β)
    (hn : (d.map (·.1)).Nodup) : ((C01.dset d k x).map (·.1)).Nodup := by
  induction d with
  | nil => simp [C01.dset]
  | cons p r ih =>
    obtain ⟨k', v'⟩ := p
    rw [List.map_cons, List.nodup_cons] at hn
    unfold C01.dset
    by_cases hk : k' = k
    · simp only [hk, if_true, List.map_cons, List.nodup_cons]
      exact ⟨hk ▸ hn.1, hn.2⟩
    · simp only [hk, if_false, List.map_cons, List.nodup_cons]
      refine ⟨?_, ih hn.2⟩
      rw [tr_mem_keys_dset]
      intro h
      rcases h with h | h
      · exact hk h
      · exact hn.1 h

theorem tr_nodup_applyMention (d : C01.Dict C01.Props) (m : C01.Mention)
    (hn : (d.map (·.1)).Nodup) : ((C01.applyMention d m).map (·.1)).Nodup := by
  unfold C01.applyMention
  exact tr_nodup_dset _ _ _ (tr_nodup_declare d m.1 hn)

theorem tr_nodup_foldl_applyMention (ms : List C01.Mention) (d : C01.Dict C01.Props)
    (hn : (d.map (·.1)).Nodup) : ((ms.foldl C01.applyMention d).map (·.1)).Nodup := by
  induction ms generalizing d with
  | nil => exact hn
  | cons m ms ih => exact ih _ (tr_nodup_applyMention d m hn)

theorem tr_nodup_varsOfMentions (ms : List C01.Mention) :
    ((C01.varsOfMentions ms).map (·.1)).Nodup :=
  tr_nodup_foldl_applyMention ms [] List.nodup_nil

theorem tr_nodup_foldl_declare (vs : List Str) (d : C01.Dict C01.Props)
    (hn : (d.map (·.1)).Nodup) : ((vs.foldl C01.declare d).map (·.1)).Nodup := by
  induction vs generalizing d with
  | nil => exact hn
  | cons v vs ih => exact ih _ (tr_nodup_declare d v hn)

/-- the `variables` dictionary of the decoded structure has no key twice -/
theorem tr_nodup_decodedS_vars (o : C01.Opts) (m : C01.MRS) :
    ((C01.decodedS o m).vars.map (·.1)).Nodup := by
  unfold C01.decodedS C01.mkMRS C01.fillVars
  exact tr_nodup_foldl_declare _ _ (tr_nodup_varsOfMentions _)

/-! ## the keys of the mentions are variable positions of the structure -/

theorem tr_mentVars_keys (vp : C01.Dict C01.Props) (vs : List Str) :
    (C01.mentVars vp vs).1.map (·.1) = vs := by
  induction vs generalizing vp with
  | nil => rfl
  | cons v vs ih =>
    rw [C01.mentVars_cons]
    simp only [List.map_cons, ih, C01.mentVar_fst]

theorem tr_mentions_keys (o : C01.Opts) (m : C01.MRS) :
    (C01.mentions o m).map (·.1) =
      m.index.toList ++ m.rels.flatMap C01.epVarPos ++ m.hcons.flatMap (fun c => [c.lhs, c.rhs]) ++
        m.icons.flatMap (fun c => [c.lhs, c.rhs]) := by
  rw [C01.mentions_eq]
  simp only [List.map_append, tr_mentVars_keys, List.map_flatMap, List.map_cons, List.map_nil]

theorem tr_mention_in_fillOrder (o : C01.Opts) (m : C01.MRS) (v : Str)
    (h : (C01.mentions o m).any (fun x => x.1 = v) = true) :
    v ∈ C01.fillOrder m.top m.index (m.rels.map (C01.epViewS o)) m.hcons m.icons := by
  have hv : v ∈ (C01.mentions o m).map (·.1) := by
    rw [List.any_eq_true] at h
    obtain ⟨x, hx, hxv⟩ := h
    exact List.mem_map.mpr ⟨x, hx, of_decide_eq_true hxv⟩
  rw [tr_mentions_keys] at hv
  simp only [List.mem_append] at hv
  rcases hv with ((hv | hv) | hv) | hv
  · exact C01.StableL.varPositions_sub_fillOrder o m v (by unfold C01.varPositions; simp [hv])
  · exact C01.StableL.varPositions_sub_fillOrder o m v (by
      unfold C01.varPositions; simp only [List.mem_append]; exact Or.inl (Or.inr hv))
  · unfold C01.fillOrder
    simp only [List.mem_append]
    refine Or.inl (Or.inr ?_)
    rw [List.mem_flatMap] at hv ⊢
    obtain ⟨c, hc, hvc⟩ := hv
    refine ⟨c, hc, ?_⟩
    simp only [List.mem_cons, List.not_mem_nil, or_false] at hvc ⊢
    exact hvc.symm
  · exact C01.StableL.varPositions_sub_fillOrder o m v (by
      unfold C01.varPositions; simp only [List.mem_append]; exact Or.inr hv)

/-- every entry of the decoded `variables`: its key is a variable of the structure, its value is empty or the
sorted property list of that variable in the source -/
theorem tr_decodedS_entry (o : C01.Opts) (m : C01.MRS)
    (hn : (m.vars.map (·.1)).Nodup) (hp : ∀ vp ∈ m.vars, (vp.2.map (·.1)).Nodup) :
    ∀ kp ∈ (C01.decodedS o m).vars,
      kp.1 ∈ C01.fillOrder m.top m.index (m.rels.map (C01.epViewS o)) m.hcons m.icons ∧
      (kp.2 = [] ∨ ∃ ps, C01.dget m.vars kp.1 = some ps ∧ kp.2 = C01.sortProps ps) := by
  intro kp hkp
  obtain ⟨k, ps'⟩ := kp
  have hget := tr_dget_of_mem_nodup _ k ps' (tr_nodup_decodedS_vars o m) hkp
  have hfill : k ∈ C01.fillOrder m.top m.index (m.rels.map (C01.epViewS o)) m.hcons m.icons := by
    apply Classical.byContradiction
    intro hnot
    have hany : (C01.mentions o m).any (fun x => x.1 = k) = false := by
      cases h : (C01.mentions o m).any (fun x => x.1 = k) with
      | false => rfl
      | true => exact absurd (tr_mention_in_fillOrder o m k h) hnot
    rw [C01.decodedS_vars_none o m k hnot hany] at hget
    cases hget
  refine ⟨hfill, ?_⟩
  rw [C01.decodedS_vars o m k hn hp hfill] at hget
  have hget : C01.propsView o m k = ps' := Option.some.inj hget
  unfold C01.propsView at hget
  split at hget
  · split at hget
    · rename_i ps hd
      exact Or.inr ⟨ps, hd, hget.symm⟩
    · exact Or.inl hget.symm
  · exact Or.inl hget.symm

/-! ## adapters -/

theorem tr_varStr_inj (a b : Var) (ha : sortPlain a.sort) (hb : sortPlain b.sort)
    (h : varStr a = varStr b) : a = b := by
  have h1 := parseVar_varStr a ha
  rw [h, parseVar_varStr b hb] at h1
  exact (Option.some.inj h1).symm

theorem tr_mapMOpt_total {α β : Type} (f : α → Option β) (L : List α)
    (h : ∀ a ∈ L, (f a).isSome = true) : ∃ ys, mapMOpt f L = some ys ∧ ys.map some = L.map f := by
  induction L with
  | nil => exact ⟨[], rfl, rfl⟩
  | cons a L ih =>
    obtain ⟨b, hb⟩ := Option.isSome_iff_exists.mp (h a List.mem_cons_self)
    obtain ⟨ys, hys, hm⟩ := ih (fun x hx => h x (List.mem_cons_of_mem _ hx))
    refine ⟨b :: ys, ?_, ?_⟩
    · simp only [mapMOpt, hb, hys]
    · simp only [List.map_cons, hm, hb]

theorem tr_filterMap_id_map_some {α : Type} (ys : List α) : (ys.map some).filterMap id = ys := by
  induction ys with
  | nil => rfl
  | cons y ys ih => simp only [List.map_cons, List.filterMap_cons, id, ih]

theorem tr_mapMOpt_perm {α β : Type} (f : β → Option α) (g : α → β) (xs : List α) (L : List β)
    (hp : L.Perm (xs.map g)) (h : ∀ x ∈ xs, f (g x) = some x) :
    ∃ ys, mapMOpt f L = some ys ∧ ys.Perm xs := by
  have hall : ∀ a ∈ L, (f a).isSome = true := by
    intro a ha
    obtain ⟨x, hx, rfl⟩ := List.mem_map.mp (hp.mem_iff.mp ha)
    rw [h x hx]; rfl
  obtain ⟨ys, hys, hm⟩ := tr_mapMOpt_total f L hall
  refine ⟨ys, hys, ?_⟩
  have h1 : (L.map f).Perm ((xs.map g).map f) := hp.map f
  have h2 : (xs.map g).map f = xs.map some := by
    rw [List.map_map]
    exact List.map_congr_left (fun x hx => h x hx)
  rw [← hm, h2] at h1
  have h3 := h1.filterMap id
  rw [tr_filterMap_id_map_some, tr_filterMap_id_map_some] at h3
  exact h3

theorem tr_mapMOpt_forall₂ {α β γ : Type} (f : β → Option γ) (g : α → β) (R : α → γ → Prop)
    (xs : List α) (h : ∀ x ∈ xs, ∃ y, f (g x) = some y ∧ R x y) :
    ∃ ys, mapMOpt f (xs.map g) = some ys ∧ Forall₂ R xs ys := by
  induction xs with
  | nil => exact ⟨[], rfl, .nil⟩
  | cons x xs ih =>
    obtain ⟨y, hy, hr⟩ := h x List.mem_cons_self
    obtain ⟨ys, hys, hf⟩ := ih (fun z hz => h z (List.mem_cons_of_mem _ hz))
    refine ⟨y :: ys, ?_, .cons hr hf⟩
    simp only [List.map_cons, mapMOpt, hy, hys]

theorem tr_dget_filter {β : Type} (d : C01.Dict β) (k : Str) :
    C01.dget d k = ((d.filter (fun a => a.1 = k)).head?).map (·.2) := by
  induction d with
  | nil => rfl
  | cons a r ih =>
    obtain ⟨k', v'⟩ := a
    unfold C01.dget
    by_cases hk : k' = k
    · simp only [hk, if_true, List.filter_cons, decide_true, List.head?_cons, Option.map_some]
    · simp only [hk, if_false, List.filter_cons, decide_false, ih]
      rfl

/-- the C01 arguments of `epOfSem e`: the variable arguments, then the constant argument -/
def tr_argsOf (args : List (Role × Var)) (carg : Option String) : C01.Dict Str :=
  args.map (fun a => (a.1.toList, varStr a.2)) ++
    (match carg with | some c => [(C01.CARG, c.toList)] | none => [])

theorem tr_filter_ne_carg (args : List (Role × Var)) (carg : Option String)
    (hc : ∀ a ∈ args, a.1.toList ≠ C01.CARG) :
    (tr_argsOf args carg).filter (fun a => decide (a.1 ≠ C01.CARG)) =
      args.map (fun a => (a.1.toList, varStr a.2)) := by
  unfold tr_argsOf
  rw [List.filter_append]
  have h1 : (args.map (fun a : Role × Var => (a.1.toList, varStr a.2))).filter
      (fun a => decide (a.1 ≠ C01.CARG)) = args.map (fun a : Role × Var => (a.1.toList, varStr a.2)) := by
    rw [List.filter_eq_self]
    intro a ha
    obtain ⟨b, hb, rfl⟩ := List.mem_map.mp ha
    exact decide_eq_true (hc b hb)
  rw [h1]
  cases carg with
  | none => simp
  | some c => simp

theorem tr_filter_eq_carg (args : List (Role × Var)) (carg : Option String)
    (hc : ∀ a ∈ args, a.1.toList ≠ C01.CARG) :
    (tr_argsOf args carg).filter (fun a => decide (a.1 = C01.CARG)) =
      (match carg with | some c => [(C01.CARG, c.toList)] | none => []) := by
  unfold tr_argsOf
  rw [List.filter_append]
  have h1 : (args.map (fun a : Role × Var => (a.1.toList, varStr a.2))).filter
      (fun a => decide (a.1 = C01.CARG)) = [] := by
    rw [List.filter_eq_nil_iff]
    intro a ha
    obtain ⟨b, hb, rfl⟩ := List.mem_map.mp ha
    simpa using hc b hb
  rw [h1]
  cases carg with
  | none => simp
  | some c => simp

theorem tr_args_view (args : List (Role × Var)) (carg : Option String)
    (hv : ∀ a ∈ args, sortPlain a.2.sort) (hc : ∀ a ∈ args, a.1.toList ≠ C01.CARG) :
    ∃ args', mapMOpt argToSem ((C01.sortArgs (tr_argsOf args carg)).filter
        (fun a => decide (a.1 ≠ C01.CARG))) = some args' ∧ args'.Perm args := by
  have hp := (C01.sortBy_perm (fun a b : Str × Str => C01.roleLe a.1 b.1) (tr_argsOf args carg)).filter
    (fun a => decide (a.1 ≠ C01.CARG))
  rw [tr_filter_ne_carg args carg hc] at hp
  exact tr_mapMOpt_perm argToSem _ args _ hp (fun a ha => argToSem_arg a (hv a ha))

theorem tr_carg_view (args : List (Role × Var)) (carg : Option String)
    (hc : ∀ a ∈ args, a.1.toList ≠ C01.CARG) :
    C01.dget (C01.sortArgs (tr_argsOf args carg)) C01.CARG = carg.map String.toList := by
  have hp := (C01.sortBy_perm (fun a b : Str × Str => C01.roleLe a.1 b.1) (tr_argsOf args carg)).filter
    (fun a => decide (a.1 = C01.CARG))
  rw [tr_filter_eq_carg args carg hc] at hp
  rw [tr_dget_filter]
  cases carg with
  | none =>
    have := hp.eq_nil
    unfold C01.sortArgs
    rw [this]; rfl
  | some c =>
    have := List.perm_singleton.mp hp
    unfold C01.sortArgs
    rw [this]; rfl

/-- one predication: written, read back, mapped into the shared core -/
theorem tr_epToSem_view (o : C01.Opts) (e : Sem.EP)
    (hv : sortPlain e.label.sort ∧ ∀ a ∈ e.args, sortPlain a.2.sort)
    (hc : ∀ a ∈ e.args, a.1.toList ≠ C01.CARG) :
    ∃ e', epToSem (C01.epViewS o (epOfSem e)) = some e' ∧ EPSim e e' := by
  obtain ⟨pred, label, args, carg, lnk, surface, base⟩ := e
  simp only at hv hc
  obtain ⟨args', hargs, hperm⟩ := tr_args_view args carg hv.2 hc
  have hcarg := tr_carg_view args carg hc
  obtain ⟨op, ol⟩ := o
  cases carg <;> simp only [tr_argsOf] at hargs hcarg <;> cases ol
  · refine ⟨⟨pred, label, args', none, none, none, none⟩, ?_, ?_⟩
    · simp only [epToSem, C01.epViewS, epOfSem, hargs, hcarg, parseVar_varStr label hv.1,
        Bool.false_eq_true, if_false, lnkToSem, String.ofList_toList, Option.map_none]
    · exact ⟨rfl, rfl, hperm, rfl, Or.inr rfl, Or.inr rfl, Or.inr rfl⟩
  · refine ⟨⟨pred, label, args', none, lnk, surface, none⟩, ?_, ?_⟩
    · simp only [epToSem, C01.epViewS, epOfSem, hargs, hcarg, parseVar_varStr label hv.1,
        if_true, lnkToSem_lnkOf, optMap_ofList_toList, String.ofList_toList, Option.map_none]
    · exact ⟨rfl, rfl, hperm, rfl, Or.inl rfl, Or.inl rfl, Or.inr rfl⟩
  · rename_i c
    refine ⟨⟨pred, label, args', some c, none, none, none⟩, ?_, ?_⟩
    · simp only [epToSem, C01.epViewS, epOfSem, hargs, hcarg, parseVar_varStr label hv.1,
        Bool.false_eq_true, if_false, lnkToSem, String.ofList_toList, Option.map_none,
        Option.map_some]
    · exact ⟨rfl, rfl, hperm, rfl, Or.inr rfl, Or.inr rfl, Or.inr rfl⟩
  · rename_i c
    refine ⟨⟨pred, label, args', some c, lnk, surface, none⟩, ?_, ?_⟩
    · simp only [epToSem, C01.epViewS, epOfSem, hargs, hcarg, parseVar_varStr label hv.1,
        if_true, lnkToSem_lnkOf, optMap_ofList_toList, String.ofList_toList, Option.map_none,
        Option.map_some]
    · exact ⟨rfl, rfl, hperm, rfl, Or.inl rfl, Or.inl rfl, Or.inr rfl⟩

/-! ## the `variables` dictionary -/

/-- every variable the decoded structure mentions is the spelling of a plainly spelled variable -/
theorem tr_fillOrder_plain (o : C01.Opts) (g : GraphInfo) (m0 : MRS) (hv : VarsPlain m0)
    (hc : NoCargRole m0) :
    ∀ k ∈ C01.fillOrder (ofSem g m0).top (ofSem g m0).index ((ofSem g m0).rels.map (C01.epViewS o))
        (ofSem g m0).hcons (ofSem g m0).icons, ∃ v : Var, sortPlain v.sort ∧ k = varStr v := by
  obtain ⟨top, index, rels, hcons, icons, vars⟩ := m0
  obtain ⟨h1, h2, h3, h4, h5, h6⟩ := hv
  simp only at h1 h2 h3 h4 h5 h6
  have hc' : ∀ e ∈ rels, ∀ a ∈ e.args, a.1.toList ≠ C01.CARG := hc
  intro k hk
  unfold C01.fillOrder ofSem at hk
  simp only [List.mem_append] at hk
  rcases hk with (((hk | hk) | hk) | hk) | hk
  · cases top with
    | none => cases hk
    | some t =>
      simp only [Option.map_some, Option.toList_some, List.mem_singleton] at hk
      exact ⟨t, h1 t rfl, hk⟩
  · cases index with
    | none => cases hk
    | some t =>
      simp only [Option.map_some, Option.toList_some, List.mem_singleton] at hk
      exact ⟨t, h2 t rfl, hk⟩
  · rw [List.mem_flatMap] at hk
    obtain ⟨ep, hep, hk⟩ := hk
    rw [List.map_map] at hep
    obtain ⟨e, he, rfl⟩ := List.mem_map.mp hep
    rcases List.mem_cons.mp hk with hk | hk
    · exact ⟨e.label, (h3 e he).1, hk⟩
    · unfold C01.epArgVars at hk
      obtain ⟨a, ha, rfl⟩ := List.mem_map.mp hk
      rw [List.mem_filter] at ha
      obtain ⟨ha, hne⟩ := ha
      have hne : a.1 ≠ C01.CARG := of_decide_eq_true hne
      have ha : a ∈ (epOfSem e).args := C01.SimpleL.mem_sortArgs.mp ha
      unfold epOfSem at ha
      simp only [List.mem_append] at ha
      rcases ha with ha | ha
      · obtain ⟨b, hb, rfl⟩ := List.mem_map.mp ha
        exact ⟨b.2, (h3 e he).2 b hb, rfl⟩
      · exfalso
        cases hcg : e.carg with
        | none => rw [hcg] at ha; cases ha
        | some c =>
          rw [hcg] at ha
          simp only [List.mem_singleton] at ha
          exact hne (by rw [ha])
  · rw [List.mem_flatMap] at hk
    obtain ⟨c, hcm, hk⟩ := hk
    obtain ⟨c0, hc0, rfl⟩ := List.mem_map.mp hcm
    simp only [List.mem_cons, List.not_mem_nil, or_false] at hk
    rcases hk with hk | hk
    · exact ⟨c0.lo, (h4 c0 hc0).2, hk⟩
    · exact ⟨c0.hi, (h4 c0 hc0).1, hk⟩
  · rw [List.mem_flatMap] at hk
    obtain ⟨c, hcm, hk⟩ := hk
    obtain ⟨c0, hc0, rfl⟩ := List.mem_map.mp hcm
    simp only [List.mem_cons, List.not_mem_nil, or_false] at hk
    rcases hk with hk | hk
    · exact ⟨c0.left, (h5 c0 hc0).1, hk⟩
    · exact ⟨c0.right, (h5 c0 hc0).2, hk⟩

/-- a lookup in the C01 spelling of `variables` is a lookup in the original -/
theorem tr_dget_ofSem_vars (vars : List (Var × Sem.Props)) (v : Var) (ps : C01.Props)
    (hk : ∀ vp ∈ vars, sortPlain vp.1.sort) (hv : sortPlain v.sort)
    (h : C01.dget (vars.map (fun vp => (varStr vp.1, propsTo vp.2))) (varStr v) = some ps) :
    ∃ ps0, dlookup v vars = some ps0 ∧ ps = propsTo ps0 := by
  induction vars with
  | nil => cases h
  | cons a r ih =>
    obtain ⟨w, q⟩ := a
    simp only [List.map_cons, C01.dget] at h
    unfold dlookup
    by_cases hw : w = v
    · subst hw
      simp only [if_true] at h ⊢
      exact ⟨q, rfl, (Option.some.inj h).symm⟩
    · have hne : varStr w ≠ varStr v := fun e =>
        hw (tr_varStr_inj w v (hk (w, q) List.mem_cons_self) hv e)
      simp only [hne, hw, if_false] at h ⊢
      exact ih (fun vp hvp => hk vp (List.mem_cons_of_mem _ hvp)) h

theorem tr_nodup_ofSem_keys (vars : List (Var × Sem.Props))
    (hk : ∀ vp ∈ vars, sortPlain vp.1.sort) (hn : (vars.map (·.1)).Nodup) :
    ((vars.map (fun vp => (varStr vp.1, propsTo vp.2))).map (·.1)).Nodup := by
  induction vars with
  | nil => exact List.nodup_nil
  | cons a r ih =>
    rw [List.map_cons, List.nodup_cons] at hn
    simp only [List.map_cons, List.nodup_cons]
    refine ⟨?_, ih (fun vp hvp => hk vp (List.mem_cons_of_mem _ hvp)) hn.2⟩
    intro hm
    rw [List.map_map] at hm
    obtain ⟨b, hb, hbe⟩ := List.mem_map.mp hm
    have : b.1 = a.1 := tr_varStr_inj b.1 a.1 (hk b (List.mem_cons_of_mem _ hb))
      (hk a List.mem_cons_self) hbe
    exact hn.1 (this ▸ List.mem_map.mpr ⟨b, hb, rfl⟩)

theorem tr_nodup_propsTo (ps : Sem.Props) (hn : (ps.map (·.1)).Nodup) :
    ((propsTo ps).map (·.1)).Nodup := by
  unfold propsTo
  induction ps with
  | nil => exact List.nodup_nil
  | cons a r ih =>
    rw [List.map_cons, List.nodup_cons] at hn
    simp only [List.map_cons, List.nodup_cons]
    refine ⟨?_, ih hn.2⟩
    intro hm
    rw [List.map_map] at hm
    obtain ⟨b, hb, hbe⟩ := List.mem_map.mp hm
    have : b.1 = a.1 := String.toList_inj.mp hbe
    exact hn.1 (this ▸ List.mem_map.mpr ⟨b, hb, rfl⟩)

/-- the `variables` of the decoded structure map into the shared core; every property list is empty or a
permutation of the source's -/
theorem tr_decoded_vars (o : C01.Opts) (g : GraphInfo) (m0 : MRS) (hv : VarsPlain m0)
    (hc : NoCargRole m0) (hk : (m0.variables.map (·.1)).Nodup) (hd : PropsAreDicts m0) :
    ∃ vars', mapMOpt varPropsToSem (C01.decodedS o (ofSem g m0)).vars = some vars' ∧
      ∀ vp' ∈ vars', vp'.2 = [] ∨ ∃ ps, dlookup vp'.1 m0.variables = some ps ∧ vp'.2.Perm ps := by
  have hplain : ∀ vp ∈ m0.variables, sortPlain vp.1.sort := hv.2.2.2.2.2
  have hn1 : ((ofSem g m0).vars.map (·.1)).Nodup := tr_nodup_ofSem_keys m0.variables hplain hk
  have hp1 : ∀ vp ∈ (ofSem g m0).vars, (vp.2.map (·.1)).Nodup := by
    intro vp hvp
    obtain ⟨vp0, hvp0, rfl⟩ := List.mem_map.mp hvp
    exact tr_nodup_propsTo vp0.2 (hd vp0 hvp0)
  have hentry := tr_decodedS_entry o (ofSem g m0) hn1 hp1
  have hkey : ∀ kp ∈ (C01.decodedS o (ofSem g m0)).vars, ∃ v : Var, sortPlain v.sort ∧ kp.1 = varStr v :=
    fun kp hkp => tr_fillOrder_plain o g m0 hv hc kp.1 (hentry kp hkp).1
  have hall : ∀ kp ∈ (C01.decodedS o (ofSem g m0)).vars, (varPropsToSem kp).isSome = true := by
    intro kp hkp
    obtain ⟨v, hvp, hkv⟩ := hkey kp hkp
    unfold varPropsToSem
    rw [hkv, parseVar_varStr v hvp]; rfl
  obtain ⟨vars', hvars', hmap⟩ := tr_mapMOpt_total varPropsToSem _ hall
  refine ⟨vars', hvars', ?_⟩
  intro vp' hvp'
  have hs : some vp' ∈ vars'.map some := List.mem_map.mpr ⟨vp', hvp', rfl⟩
  rw [hmap] at hs
  obtain ⟨kp, hkp, hkv⟩ := List.mem_map.mp hs
  obtain ⟨v, hvp, hkv1⟩ := hkey kp hkp
  unfold varPropsToSem at hkv
  rw [hkv1, parseVar_varStr v hvp] at hkv
  simp only [Option.map_some] at hkv
  have hkv : (v, propsOf kp.2) = vp' := Option.some.inj hkv
  subst hkv
  rcases (hentry kp hkp).2 with h0 | ⟨ps, hget, hsort⟩
  · left; simp only [h0]; rfl
  · right
    rw [hkv1] at hget
    obtain ⟨ps0, hl, hps⟩ := tr_dget_ofSem_vars m0.variables v ps hplain hvp hget
    refine ⟨ps0, hl, ?_⟩
    simp only [hsort, hps]
    have := (C01.sortProps_perm (propsTo ps0)).map
      (fun kv : Str × Str => (String.ofList kv.1, String.ofList kv.2))
    have h2 : propsOf (propsTo ps0) = ps0 := propsOf_propsTo ps0
    unfold propsOf at h2 ⊢
    rw [h2] at this
    exact this

/-! ## the decoded encoding is similar to the source -/

/-- `decode(encode(m0))` mapped back into the shared core exists and is similar to `m0` (minimal hypotheses:
plain spellings, no variable argument called `CARG`, `variables` and every property map are dictionaries) -/
theorem reread_sim_of (o1 : C01.Opts) (g : GraphInfo) (m0 : MRS) (hv : VarsPlain m0) (hc : NoCargRole m0)
    (hk : (m0.variables.map (·.1)).Nodup) (hd : PropsAreDicts m0) :
    ∃ m, toSem (C01.decodedS o1 (ofSem g m0)) = some m ∧ MRSSim m0 m := by
  obtain ⟨vars', e6, hvars⟩ := tr_decoded_vars o1 g m0 hv hc hk hd
  obtain ⟨top, index, rels, hcons, icons, vars⟩ := m0
  obtain ⟨h1, h2, h3, h4, h5, h6⟩ := hv
  simp only at h1 h2 h3 h4 h5 h6
  have hc' : ∀ e ∈ rels, ∀ a ∈ e.args, a.1.toList ≠ C01.CARG := hc
  have e1 : optVar (C01.decodedS o1 (ofSem g ⟨top, index, rels, hcons, icons, vars⟩)).top = some top :=
    optVar_map_varStr top h1
  have e2 : optVar (C01.decodedS o1 (ofSem g ⟨top, index, rels, hcons, icons, vars⟩)).index = some index :=
    optVar_map_varStr index h2
  obtain ⟨rels', e3, hrels⟩ := tr_mapMOpt_forall₂ epToSem (fun e => C01.epViewS o1 (epOfSem e)) EPSim rels
    (fun e he => tr_epToSem_view o1 e (h3 e he) (hc' e he))
  have e3 : mapMOpt epToSem (C01.decodedS o1 (ofSem g ⟨top, index, rels, hcons, icons, vars⟩)).rels
      = some rels' := by
    rw [← e3]
    show mapMOpt epToSem ((rels.map epOfSem).map (C01.epViewS o1)) = _
    rw [List.map_map]; rfl
  have e4 : mapMOpt hconsToSem (C01.decodedS o1 (ofSem g ⟨top, index, rels, hcons, icons, vars⟩)).hcons
      = some hcons :=
    mapMOpt_map hconsToSem (fun c : Sem.HCons => (⟨varStr c.hi, c.rel.toList, varStr c.lo⟩ : C01.Cons)) hcons
      (fun c hm => hconsToSem_hcons c (h4 c hm))
  have e5 : mapMOpt iconsToSem (C01.decodedS o1 (ofSem g ⟨top, index, rels, hcons, icons, vars⟩)).icons
      = some icons :=
    mapMOpt_map iconsToSem (fun c : Sem.ICons => (⟨varStr c.left, c.rel.toList, varStr c.right⟩ : C01.Cons))
      icons (fun c hm => iconsToSem_icons c (h5 c hm))
  refine ⟨⟨top, index, rels', hcons, icons, vars'⟩, ?_, ?_⟩
  · simp only [toSem, e1, e2, e3, e4, e5, e6]
  · exact ⟨rfl, rfl, rfl, rfl, hrels, hvars⟩

/-- hypotheses under which `ofSem g m0` is expressible in SimpleMRS (`C01.ExprS`) and is read back to a
similar structure -/
structure SrcOK (m0 : MRS) : Prop where
  vars : VarsPlain m0
  noCarg : NoCargRole m0
  keys : (m0.variables.map (·.1)).Nodup
  dicts : PropsAreDicts m0
  topSort : ∀ v ∈ m0.top, C01.lower v.sort.toList = v.sort.toList
  indexSort : ∀ v ∈ m0.index, C01.lower v.sort.toList = v.sort.toList
  preds : ∀ e ∈ m0.rels, C01.normalizePred e.predicate.toList = e.predicate.toList
  labelSorts : ∀ e ∈ m0.rels, C01.lower e.label.sort.toList = e.label.sort.toList
  roles : ∀ e ∈ m0.rels, ∀ a ∈ e.args, C01.upper a.1.toList = a.1.toList
  rolesNodup : ∀ e ∈ m0.rels, (e.args.map (·.1)).Nodup
  argSorts : ∀ e ∈ m0.rels, ∀ a ∈ e.args, C01.lower a.2.sort.toList = a.2.sort.toList
  hcons : ∀ c ∈ m0.hcons, C01.lower c.hi.sort.toList = c.hi.sort.toList ∧
    C01.lower c.rel.toList = c.rel.toList ∧ C01.lower c.lo.sort.toList = c.lo.sort.toList
  icons : ∀ c ∈ m0.icons, C01.lower c.left.sort.toList = c.left.sort.toList ∧
    C01.lower c.rel.toList = c.rel.toList ∧ C01.lower c.right.sort.toList = c.right.sort.toList
  props : ∀ vp ∈ m0.variables, ∀ kv ∈ vp.2,
    C01.upper kv.1.toList = kv.1.toList ∧ C01.lower kv.2.toList = kv.2.toList

theorem reread_sim (o1 : C01.Opts) (g : GraphInfo) (m0 : MRS) (h : SrcOK m0) :
    ∃ m, toSem (C01.decodedS o1 (ofSem g m0)) = some m ∧ MRSSim m0 m :=
  reread_sim_of o1 g m0 h.vars h.noCarg h.keys h.dicts

/-! ## `ofSem g m0` is expressible in SimpleMRS -/

theorem tr_lowerC_digit (c : Char) (h : c.isDigit = true) : C01.lowerC c = c := by
  unfold C01.lowerC
  split
  · rename_i hc
    exfalso
    simp [Char.isDigit, Char.le_def, UInt32.le_iff_toNat_le] at h hc
    omega
  · rfl

theorem tr_map_eq_self {α : Type} {f : α → α} {l : List α} (h : ∀ x ∈ l, f x = x) : l.map f = l := by
  induction l with
  | nil => rfl
  | cons a l ih =>
    rw [List.map_cons, h a List.mem_cons_self, ih (fun x hx => h x (List.mem_cons_of_mem _ hx))]

theorem tr_lower_natStr (n : Nat) : C01.lower (natStr n) = natStr n := by
  unfold C01.lower
  exact tr_map_eq_self (fun c hc => tr_lowerC_digit c (mem_natStr_isDigit hc))

theorem tr_lower_varStr (v : Var) (h : C01.lower v.sort.toList = v.sort.toList) :
    C01.lower (varStr v) = varStr v := by
  have h2 := tr_lower_natStr v.vid
  unfold C01.lower at h h2 ⊢
  unfold varStr
  rw [List.map_append, h, h2]

theorem tr_upper_CARG : C01.upper C01.CARG = C01.CARG := by decide

theorem tr_exprEP (e : Sem.EP)
    (hp : C01.normalizePred e.predicate.toList = e.predicate.toList)
    (hl : C01.lower e.label.sort.toList = e.label.sort.toList)
    (hr : ∀ a ∈ e.args, C01.upper a.1.toList = a.1.toList)
    (hn : (e.args.map (·.1)).Nodup)
    (hs : ∀ a ∈ e.args, C01.lower a.2.sort.toList = a.2.sort.toList)
    (hc : ∀ a ∈ e.args, a.1.toList ≠ C01.CARG) : C01.ExprEP (epOfSem e) := by
  obtain ⟨pred, label, args, carg, lnk, surface, base⟩ := e
  simp only at hp hl hr hn hs hc
  have hmem : ∀ a ∈ (epOfSem ⟨pred, label, args, carg, lnk, surface, base⟩).args,
      (∃ b ∈ args, a = (b.1.toList, varStr b.2)) ∨ a.1 = C01.CARG := by
    intro a ha
    unfold epOfSem at ha
    simp only [List.mem_append] at ha
    rcases ha with ha | ha
    · obtain ⟨b, hb, rfl⟩ := List.mem_map.mp ha
      exact Or.inl ⟨b, hb, rfl⟩
    · cases carg with
      | none => cases ha
      | some c =>
        simp only [List.mem_singleton] at ha
        exact Or.inr (by rw [ha])
  refine ⟨hp, tr_lower_varStr label hl, ?_, ?_, ?_⟩
  · intro a ha
    rcases hmem a ha with ⟨b, hb, rfl⟩ | h
    · exact hr b hb
    · rw [h]; exact tr_upper_CARG
  · unfold epOfSem
    simp only [List.map_append, List.map_map]
    have h1 : (args.map ((fun x : Str × Str => x.1) ∘ fun a : Role × Var => (a.1.toList, varStr a.2))).Nodup := by
      clear hmem hr hs hc
      induction args with
      | nil => exact List.nodup_nil
      | cons a r ih =>
        rw [List.map_cons, List.nodup_cons] at hn
        simp only [List.map_cons, List.nodup_cons]
        refine ⟨?_, ih hn.2⟩
        intro hm
        obtain ⟨b, hb, hbe⟩ := List.mem_map.mp hm
        have : b.1 = a.1 := String.toList_inj.mp hbe
        exact hn.1 (this ▸ List.mem_map.mpr ⟨b, hb, rfl⟩)
    cases carg with
    | none => simpa using h1
    | some c =>
      rw [List.nodup_append]
      refine ⟨h1, by simp, ?_⟩
      intro a ha b hb
      simp only [List.map_cons, List.map_nil, List.mem_singleton] at hb
      subst hb
      obtain ⟨x, hx, rfl⟩ := List.mem_map.mp ha
      exact hc x hx
  · intro a ha hne
    rcases hmem a ha with ⟨b, hb, rfl⟩ | h
    · exact tr_lower_varStr b.2 (hs b hb)
    · exact absurd h hne

theorem ofSem_exprS (g : GraphInfo) (m0 : MRS) (h : SrcOK m0) : C01.ExprS (ofSem g m0) where
  top := by
    intro t ht
    unfold ofSem at ht
    simp only [Option.map_eq_some_iff] at ht
    obtain ⟨v, hv, rfl⟩ := ht
    exact tr_lower_varStr v (h.topSort v hv)
  index := by
    intro t ht
    unfold ofSem at ht
    simp only [Option.map_eq_some_iff] at ht
    obtain ⟨v, hv, rfl⟩ := ht
    exact tr_lower_varStr v (h.indexSort v hv)
  rels := by
    intro e he
    obtain ⟨e0, he0, rfl⟩ := List.mem_map.mp he
    exact tr_exprEP e0 (h.preds e0 he0) (h.labelSorts e0 he0) (h.roles e0 he0) (h.rolesNodup e0 he0)
      (h.argSorts e0 he0) (h.noCarg e0 he0)
  hcons := by
    intro c hc
    obtain ⟨c0, hc0, rfl⟩ := List.mem_map.mp hc
    obtain ⟨h1, h2, h3⟩ := h.hcons c0 hc0
    exact ⟨tr_lower_varStr _ h1, h2, tr_lower_varStr _ h3⟩
  icons := by
    intro c hc
    obtain ⟨c0, hc0, rfl⟩ := List.mem_map.mp hc
    obtain ⟨h1, h2, h3⟩ := h.icons c0 hc0
    exact ⟨tr_lower_varStr _ h1, h2, tr_lower_varStr _ h3⟩
  props := by
    intro vp hvp kv hkv
    obtain ⟨vp0, hvp0, rfl⟩ := List.mem_map.mp hvp
    obtain ⟨kv0, hkv0, rfl⟩ := List.mem_map.mp hkv
    exact h.props vp0 hvp0 kv0 hkv0
  propsNodup := by
    intro vp hvp
    obtain ⟨vp0, hvp0, rfl⟩ := List.mem_map.mp hvp
    exact tr_nodup_propsTo vp0.2 (h.dicts vp0 hvp0)

end Verif.Integration
