/-
Integration — the OUTPUT of C05's `eds.from_mrs` model, seen through the adapter `toC03`, satisfies the
HYPOTHESES of C03's round-trip theorems (`C03.Expressible`, `C03.NoUntypedProps`, `ids.Nodup`,
`targetsOk`).  C05 proves `ExpressibleE e` (the same clauses over `String` / `Var`); here it is transported
through the adapter.  Core Lean only.
-/
import Verif.Integration.Adapt
import Verif.C05.Props
import Verif.C03.View
import Verif.Common.CodecLemmas

namespace Verif.Integration
open Verif.Codec Verif.Sem

/-! ## spelling of variables -/

theorem natStr_injective (a b : Nat) (h : natStr a = natStr b) : a = b := by
  rw [← digitsToNat_natStr a, ← digitsToNat_natStr b, h]

/-- a list that ends in a digit-free position cannot be extended by a non-empty list of digits and
still end in a non-digit -/
private theorem no_digit_tail (s as : List Char) (has : as ≠ [])
    (hd : ∀ c ∈ as, c.isDigit = true)
    (hs : ∀ c ∈ (s ++ as).getLast?, c.isDigit = false) : False := by
  rcases List.eq_nil_or_concat as with h | ⟨ys, a, h⟩
  · exact has h
  · rw [List.concat_eq_append] at h
    subst h
    have h1 : (s ++ (ys ++ [a])).getLast? = some a := by
      rw [← List.append_assoc, List.getLast?_concat]
    have h2 := hs a (by rw [h1]; rfl)
    have h3 := hd a (by simp)
    rw [h2] at h3
    cases h3

/-- the split point between a part that does not end in a digit and a part made of digits is unique -/
theorem split_digits_unique (s1 s2 d1 d2 : List Char)
    (hd1 : ∀ c ∈ d1, c.isDigit = true) (hd2 : ∀ c ∈ d2, c.isDigit = true)
    (hs1 : ∀ c ∈ s1.getLast?, c.isDigit = false) (hs2 : ∀ c ∈ s2.getLast?, c.isDigit = false)
    (h : s1 ++ d1 = s2 ++ d2) : s1 = s2 ∧ d1 = d2 := by
  rcases List.append_eq_append_iff.1 h with ⟨as, h1, h2⟩ | ⟨bs, h1, h2⟩
  · by_cases has : as = []
    · subst has
      simp only [List.append_nil] at h1
      simp only [List.nil_append] at h2
      exact ⟨h1.symm, h2⟩
    · exfalso
      subst h1
      exact no_digit_tail s1 as has (fun c hc => hd1 c (by rw [h2]; simp [hc])) hs2
  · by_cases hbs : bs = []
    · subst hbs
      simp only [List.append_nil] at h1
      simp only [List.nil_append] at h2
      exact ⟨h1, h2.symm⟩
    · exfalso
      subst h1
      exact no_digit_tail s2 bs hbs (fun c hc => hd2 c (by rw [h2]; simp [hc])) hs1

/-- the spelling determines the variable when sorts do not end in a digit -/
theorem varStr_injective (a b : Var) (ha : sortPlain a.sort) (hb : sortPlain b.sort)
    (h : varStr a = varStr b) : a = b := by
  unfold varStr at h
  obtain ⟨h1, h2⟩ := split_digits_unique _ _ _ _ (fun c hc => mem_natStr_isDigit hc)
    (fun c hc => mem_natStr_isDigit hc) ha hb h
  have h3 := String.toList_inj.1 h1
  have h4 := natStr_injective _ _ h2
  cases a; cases b
  simp_all

/-! ## case mapping -/

theorem upper_of_upperS (s : String) (h : C05.upperS s = s) : C03.upper s.toList = s.toList := by
  have := congrArg String.toList h
  unfold C05.upperS at this
  rw [String.toList_ofList] at this
  exact this

theorem lower_of_lowerS (s : String) (h : C05.lowerS s = s) : C03.lower s.toList = s.toList := by
  have := congrArg String.toList h
  unfold C05.lowerS at this
  rw [String.toList_ofList] at this
  exact this

/-! ## lists without repetition under a map that is injective on the members -/

theorem nodup_map_onE {α β : Type} (f : α → β) : ∀ (l : List α),
    (∀ a ∈ l, ∀ b ∈ l, f a = f b → a = b) → l.Nodup → (l.map f).Nodup := by
  intro l
  induction l with
  | nil => intro _ _; exact List.nodup_nil
  | cons x xs ih =>
    intro hinj hnd
    obtain ⟨hx, hxs⟩ := List.nodup_cons.1 hnd
    rw [List.map_cons]
    refine List.nodup_cons.2 ⟨?_, ih (fun a ha b hb => hinj a (List.mem_cons_of_mem _ ha) b
      (List.mem_cons_of_mem _ hb)) hxs⟩
    intro hmem
    obtain ⟨y, hy, hfy⟩ := List.mem_map.1 hmem
    have := hinj y (List.mem_cons_of_mem _ hy) x List.mem_cons_self hfy
    exact hx (this ▸ hy)

theorem nodup_map_toList (l : List String) (h : l.Nodup) : (l.map String.toList).Nodup :=
  nodup_map_onE String.toList l (fun _ _ _ _ e => String.toList_inj.1 e) h

theorem propsTo_keys (ps : Sem.Props) :
    (propsTo ps).map (·.1) = (ps.map (·.1)).map String.toList := by
  unfold propsTo
  simp only [List.map_map]
  rfl

theorem edges_keys (es : List (Role × Var)) :
    (es.map (fun rt => (rt.1.toList, varStr rt.2))).map (·.1) = (es.map (·.1)).map String.toList := by
  simp only [List.map_map]
  rfl

/-! ## the hypotheses of the C03 theorems -/

theorem toC03_expressible (ident : Option Str) (hid : ident ≠ some []) (e : C05.EDS)
    (hx : C05.ExpressibleE e) : C03.Expressible (toC03 ident e) := by
  refine ⟨?_, ?_, ?_, ?_, ?_, ?_, ?_, hid⟩
  · intro n hn
    obtain ⟨n0, hn0, rfl⟩ := List.mem_map.1 hn
    exact lower_of_lowerS _ (hx.preds n0 hn0)
  · intro n hn p hp
    obtain ⟨n0, hn0, rfl⟩ := List.mem_map.1 hn
    obtain ⟨kv, hkv, rfl⟩ := List.mem_map.1 hp
    obtain ⟨h1, h2⟩ := hx.props n0 hn0 kv hkv
    exact ⟨upper_of_upperS _ h1, lower_of_lowerS _ h2⟩
  · intro n hn p hp
    obtain ⟨n0, hn0, rfl⟩ := List.mem_map.1 hn
    obtain ⟨rt, hrt, rfl⟩ := List.mem_map.1 hp
    exact upper_of_upperS _ (hx.roles n0 hn0 rt hrt)
  · intro n hn
    obtain ⟨n0, hn0, rfl⟩ := List.mem_map.1 hn
    show ((propsTo n0.properties).map (·.1)).Nodup
    rw [propsTo_keys]
    exact nodup_map_toList _ (hx.propsNodup n0 hn0)
  · intro n hn
    obtain ⟨n0, hn0, rfl⟩ := List.mem_map.1 hn
    show ((n0.edges.map (fun rt => (rt.1.toList, varStr rt.2))).map (·.1)).Nodup
    rw [edges_keys]
    exact nodup_map_toList _ (hx.edgesNodup n0 hn0)
  · intro n hn
    obtain ⟨n0, hn0, rfl⟩ := List.mem_map.1 hn
    show n0.type.map String.toList ≠ some []
    intro heq
    cases ht : n0.type with
    | none => rw [ht] at heq; cases heq
    | some t =>
      rw [ht] at heq
      simp only [Option.map_some, Option.some.injEq] at heq
      have : t = "" := String.toList_inj.1 (by rw [heq]; rfl)
      exact hx.typed n0 hn0 (by rw [ht, this])
  · intro hnil
    have : e.nodes = [] := List.map_eq_nil_iff.1 hnil
    show e.top.map varStr = none
    rw [hx.top this]
    rfl

/-- F38 never bites on converted graphs: an untyped node (a quantifier) has no properties -/
theorem toC03_noUntypedProps (ident : Option Str) (e : C05.EDS) (hx : C05.ExpressibleE e) :
    C03.NoUntypedProps (toC03 ident e) := by
  intro n hn htype
  obtain ⟨n0, hn0, rfl⟩ := List.mem_map.1 hn
  have h1 : n0.type = none := by
    have : n0.type.map String.toList = none := htype
    cases ht : n0.type with
    | none => rfl
    | some t => rw [ht] at this; cases this
  show propsTo n0.properties = []
  rw [hx.noUntypedProps n0 hn0 h1]
  rfl

theorem toC03_ids (ident : Option Str) (e : C05.EDS) :
    (toC03 ident e).ids = (e.nodes.map (·.id)).map varStr := by
  unfold C03.EDS.ids toC03
  simp only [List.map_map]
  rfl

theorem toC03_ids_nodup (ident : Option Str) (e : C05.EDS) (hx : C05.ExpressibleE e)
    (hp : ∀ n ∈ e.nodes, sortPlain n.id.sort) : (toC03 ident e).ids.Nodup := by
  rw [toC03_ids]
  refine nodup_map_onE varStr _ ?_ hx.idsNodup
  intro a ha b hb hab
  obtain ⟨na, hna, rfl⟩ := List.mem_map.1 ha
  obtain ⟨nb, hnb, rfl⟩ := List.mem_map.1 hb
  exact varStr_injective _ _ (hp na hna) (hp nb hnb) hab

theorem toC03_targetsOk (ident : Option Str) (e : C05.EDS) (hx : C05.ExpressibleE e) :
    (toC03 ident e).targetsOk = true := by
  unfold C03.EDS.targetsOk
  rw [List.all_eq_true]
  intro n hn
  obtain ⟨n0, hn0, rfl⟩ := List.mem_map.1 hn
  rw [List.all_eq_true]
  intro p hp
  obtain ⟨rt, hrt, rfl⟩ := List.mem_map.1 hp
  rw [toC03_ids]
  simp only [decide_eq_true_eq]
  exact List.mem_map.2 ⟨rt.2, hx.targets n0 hn0 rt hrt, rfl⟩

/-! ## node identifiers are spelled with plain sorts -/

theorem sortPlain_underscore : sortPlain "_" := by decide
theorem sortPlain_q : sortPlain "q" := by decide

theorem mem_uniquify : ∀ (l : List Var) (k : Nat) (seen : List Var) (x : Var),
    x ∈ uniquify k seen l → x.sort = "_" ∨ x ∈ l := by
  intro l
  induction l with
  | nil => intro k seen x hx; simp [uniquify] at hx
  | cons i is ih =>
    intro k seen x hx
    unfold uniquify at hx
    split at hx
    · rcases List.mem_cons.1 hx with rfl | hx
      · exact Or.inl rfl
      · rcases ih _ _ x hx with h | h
        · exact Or.inl h
        · exact Or.inr (List.mem_cons_of_mem _ h)
    · rcases List.mem_cons.1 hx with rfl | hx
      · exact Or.inr List.mem_cons_self
      · rcases ih _ _ x hx with h | h
        · exact Or.inl h
        · exact Or.inr (List.mem_cons_of_mem _ h)

theorem ivAll_someE {ep : EP} {p : Var → Prop} {v : Var} (h : ivAll ep p) (hv : ep.iv = some v) : p v := by
  unfold ivAll at h
  rw [hv] at h
  exact h

theorem baseId_plain (ep : EP) (h : ivAll ep (fun v => sortPlain v.sort)) :
    sortPlain ep.baseId.sort := by
  unfold EP.baseId
  simp only
  split
  · exact sortPlain_q
  · cases hv : ep.iv with
    | none => exact sortPlain_underscore
    | some v => exact ivAll_someE h hv

/-- node identifiers of a converted graph are spelled with plain sorts when the intrinsic variables are -/
theorem fromMrs_ids_plain (pm : C05.PM) (uniq : Bool) (m : MRS) (hiv : m.hasIVProperty = true)
    (hnr : C05.NoReserved m) (hp : ∀ ep ∈ m.rels, ivAll ep (fun v => sortPlain v.sort))
    (e : C05.EDS) (w : List C05.Warn) (h : C05.fromMrs pm uniq m = .ok (e, w)) :
    ∀ n ∈ e.nodes, sortPlain n.id.sort := by
  intro n hn
  have hmem : n.id ∈ e.nodes.map (·.id) := List.mem_map.2 ⟨n, hn, rfl⟩
  cases uniq with
  | true =>
    rw [C05.fromMrs_ids_lkb_style pm m hiv hnr e w h] at hmem
    rcases C05.lkbIds_mem _ _ _ hmem with ⟨h1, _⟩ | h1
    · rw [h1]; exact sortPlain_underscore
    · rw [C05.filterMap_ivKey] at h1
      unfold MRS.nonQuantIVs at h1
      obtain ⟨ep, hep, hf⟩ := List.mem_filterMap.1 h1
      have hv : ep.iv = some n.id := by
        split at hf
        · cases hf
        · exact hf
      exact ivAll_someE (hp ep hep) hv
  | false =>
    rw [(C05.fromMrs_ids_unique_partial pm m hnr (C05.completeIVs_of_ivProperty hiv) e w h).1] at hmem
    unfold MRS.ids at hmem
    rcases mem_uniquify _ _ _ _ hmem with h1 | h1
    · rw [h1]; exact sortPlain_underscore
    · obtain ⟨ep, hep, hb⟩ := List.mem_map.1 h1
      rw [← hb]
      exact baseId_plain ep (hp ep hep)

end Verif.Integration
