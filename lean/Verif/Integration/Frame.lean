/-
Integration × C20 — the document frame of `commands.convert` composed with the REAL item codecs.

C20's model assembles `header + joiner.join(parts) + footer` over opaque item texts and reads the result
back with item-boundary splitters (bracket / tag depth).  C02 and C03 model the real lexers and parsers of
SimpleDMRS and native EDS.  This file links the two: the text C20's `assemble` builds around the texts that
C02's / C03's encoders write — for the frame of the codec's row in the generated table, in the three layouts
`convert` can produce (plain: joiner `' '`; indent: items written with `indent=k`, joiner `'\n\n'`;
`-lines`: joiner `'\n'`) — is read by the codec's own `loads` model (regex-lexer model + parser) as exactly
the N structures, in order.  No item-boundary splitter and no restriction on brackets inside symbols is
involved: the reader is the lexer model of C02 / C03.
-/
import Verif.C20.Props
import Verif.Integration.Props

namespace Verif.Integration.Frame
open Verif

/-! ### the SimpleDMRS row of the generated codec table -/

def sdName : C20.Str := ['s', 'i', 'm', 'p', 'l', 'e', 'd', 'm', 'r', 's']

/-- SimpleDMRS defines none of HEADER/JOINER/FOOTER: `convert` uses `''`, `' '`, `''`. -/
def plainFrame : C20.Frame := ⟨[], [' '], []⟩

theorem sd_row : (C20.getCodec sdName).toOption.map C20.frameOf = some plainFrame := by decide

theorem sd_frame (c : C20.Codec) (hc : C20.getCodec sdName = .ok c) : C20.frameOf c = plainFrame := by
  have h := sd_row
  rw [hc] at h
  simpa [Except.toOption] using h

theorem plain_eff_plain : C20.effFrame plainFrame false false = ⟨[], [' '], []⟩ := rfl
theorem plain_eff_indent : C20.effFrame plainFrame true false = ⟨[], ['\n', '\n'], []⟩ := by decide
theorem plain_eff_lines (i : Bool) : C20.effFrame plainFrame i true = ⟨[], ['\n'], []⟩ := rfl

/-- with the plain frame the document is just the joined items -/
theorem assemble_plain (indent lines : Bool) (items : List C20.Str) :
    C20.assemble plainFrame indent lines items =
      C20.joinWith (C20.effFrame plainFrame indent lines).joiner items := by
  cases lines <;> cases indent <;>
    simp [C20.assemble, C20.assembleWith, plain_eff_plain, plain_eff_indent, plain_eff_lines]

/-! ### `render` of a concatenation -/

theorem render_append : ∀ (a b : List C02.T), a ≠ [] → b ≠ [] →
    (∀ t u, a.getLast? = some t → b.head? = some u → C02.glue t u = false) →
    C02.render (a ++ b) = C02.render a ++ ' ' :: C02.render b
  | [], _, h, _, _ => absurd rfl h
  | [t], [], _, h, _ => absurd rfl h
  | [t], u :: r, _, _, hg => by
    have := hg t u rfl rfl
    simp [C02.render, this]
  | t :: t2 :: a, b, _, hb, hg => by
    have ih := render_append (t2 :: a) b (by simp) hb (by
      intro x u hx hu
      exact hg x u (by simpa [List.getLast?_cons_cons] using hx) hu)
    show C02.render (t :: t2 :: (a ++ b)) = _
    simp only [C02.render]
    have e : t2 :: (a ++ b) = (t2 :: a) ++ b := rfl
    rw [e, ih]
    by_cases h : C02.glue t t2 = true <;> simp [h]

theorem enc_head (o : C02.Opts) (d : C02.DMRS) :
    (C02.encDmrsToks o d).head? = some (C02.sym (C02.S "dmrs")) := by
  simp [C02.encDmrsToks]

theorem enc_last (o : C02.Opts) (d : C02.DMRS) : (C02.encDmrsToks o d).getLast? = some C02.tRBRACE := by
  have : C02.encDmrsToks o d =
      (C02.sym (C02.S "dmrs") :: C02.identToks d.identifier ++ C02.tLBRACE :: C02.attrToks o d ++
        d.nodes.flatMap (C02.encNodeToks o) ++ d.links.flatMap C02.encLinkToks) ++ [C02.tRBRACE] := by
    simp [C02.encDmrsToks]
  rw [this, List.getLast?_append]
  simp

theorem enc_ne_nil (o : C02.Opts) (d : C02.DMRS) : C02.encDmrsToks o d ≠ [] := by
  simp [C02.encDmrsToks]

theorem flat_head (o : C02.Opts) (d : C02.DMRS) (ds : List C02.DMRS) :
    ((d :: ds).flatMap (C02.encDmrsToks o)).head? = some (C02.sym (C02.S "dmrs")) := by
  simp [List.flatMap_cons, C02.encDmrsToks]

/-- plain layout: joining the single-line item texts with one blank is the codec's own list text -/
theorem join_blank_eq_list (o : C02.Opts) : ∀ ds : List C02.DMRS,
    C20.joinWith [' '] (ds.map (C02.encodeText o)) = C02.encodeTextList o ds
  | [] => rfl
  | [d] => by simp [C20.joinWith, C02.encodeText, C02.encodeTextList]
  | d :: d2 :: r => by
    have ih := join_blank_eq_list o (d2 :: r)
    simp only [List.map_cons] at ih ⊢
    rw [L_joinWith_cons_cons, ih]
    have hr := render_append (C02.encDmrsToks o d) ((d2 :: r).flatMap (C02.encDmrsToks o)) (enc_ne_nil o d)
      (by simp [List.flatMap_cons, enc_ne_nil]) (by
        intro t u ht hu
        rw [enc_last] at ht
        rw [flat_head] at hu
        cases ht; cases hu
        decide)
    unfold C02.encodeText C02.encodeTextList
    have e : List.flatMap (C02.encDmrsToks o) (d :: d2 :: r) =
        C02.encDmrsToks o d ++ List.flatMap (C02.encDmrsToks o) (d2 :: r) := List.flatMap_cons ..
    rw [e, hr]
    rfl
where
  L_joinWith_cons_cons {j x y : C20.Str} {r : List C20.Str} :
      C20.joinWith j (x :: y :: r) = x ++ (j ++ C20.joinWith j (y :: r)) := rfl

/-! ### the three layouts of a SimpleDMRS target document -/

/-- what `convert` writes for the already converted DMRSs `ds` into a SimpleDMRS target: items encoded on one
line (no indent, or `-lines`) or with `indent=k`, assembled with the frame of the table's row. -/
def sdItem (o : C02.Opts) (indent : Option Nat) (d : C02.DMRS) : C20.Str :=
  match indent with
  | none => C02.encodeText o d
  | some k => C02.encodeTextIndent o k d

theorem sdItem_none (o : C02.Opts) : sdItem o none = C02.encodeText o := rfl
theorem sdItem_some (o : C02.Opts) (k : Nat) : sdItem o (some k) = C02.encodeTextIndent o k := rfl

def sdDoc (o : C02.Opts) (indent : Option Nat) (lines : Bool) (ds : List C02.DMRS) : C20.Str :=
  C20.assemble plainFrame indent.isSome lines (ds.map (sdItem o (if lines then none else indent)))

theorem joinNL_eq (ls : List C20.Str) : C02.joinNL ls = C20.joinWith ['\n'] ls := by
  induction ls with
  | nil => rfl
  | cons l r ih =>
    cases r with
    | nil => rfl
    | cons l2 r2 =>
      show l ++ '\n' :: C02.joinNL (l2 :: r2) = l ++ (['\n'] ++ C20.joinWith ['\n'] (l2 :: r2))
      rw [ih]
      rfl

theorem lineText_zero (ts : List C02.T) : C02.lineText (0, ts) = C02.render ts := by
  simp [C02.lineText]

theorem joinNL_append : ∀ (a b : List C20.Str), a ≠ [] → b ≠ [] →
    C02.joinNL (a ++ b) = C02.joinNL a ++ '\n' :: C02.joinNL b
  | [], _, h, _ => absurd rfl h
  | [x], [], _, h => absurd rfl h
  | [x], y :: r, _, _ => rfl
  | x :: x2 :: a, b, _, hb => by
    have ih := joinNL_append (x2 :: a) b (by simp) hb
    show x ++ '\n' :: C02.joinNL ((x2 :: a) ++ b) = _
    rw [ih]
    simp [C02.joinNL]

/-- the lines of an indented multi-item document: the items' lines with one empty line in between -/
def sepLines (o : C02.Opts) (k : Nat) : List C02.DMRS → List (Nat × List C02.T)
  | [] => []
  | [d] => C02.tokLines o k d
  | d :: d2 :: r => C02.tokLines o k d ++ (0, []) :: sepLines o k (d2 :: r)

theorem tokLines_ne_nil (o : C02.Opts) (k : Nat) (d : C02.DMRS) : C02.tokLines o k d ≠ [] := by
  simp [C02.tokLines]

theorem sepLines_ne_nil (o : C02.Opts) (k : Nat) (d : C02.DMRS) (r : List C02.DMRS) :
    sepLines o k (d :: r) ≠ [] := by
  cases r <;> simp [sepLines, tokLines_ne_nil]

theorem join_blankline_eq (o : C02.Opts) (k : Nat) : ∀ ds : List C02.DMRS,
    C20.joinWith ['\n', '\n'] (ds.map (C02.encodeTextIndent o k)) =
      C02.joinNL ((sepLines o k ds).map C02.lineText)
  | [] => rfl
  | [d] => rfl
  | d :: d2 :: r => by
    have ih := join_blankline_eq o k (d2 :: r)
    simp only [List.map_cons] at ih ⊢
    show C02.encodeTextIndent o k d ++ (['\n', '\n'] ++ C20.joinWith ['\n', '\n'] _) = _
    rw [ih]
    simp only [sepLines, List.map_append, List.map_cons]
    rw [joinNL_append _ _ (by simp [tokLines_ne_nil]) (by simp)]
    have hne : (sepLines o k (d2 :: r)).map C02.lineText ≠ [] := by
      simp [sepLines_ne_nil]
    cases hs : (sepLines o k (d2 :: r)).map C02.lineText with
    | nil => exact absurd hs hne
    | cons l ls =>
      simp [C02.encodeTextIndent, C02.joinNL, C02.lineText, C02.render]

theorem sepLines_flat (o : C02.Opts) (k : Nat) : ∀ ds : List C02.DMRS,
    (sepLines o k ds).flatMap (·.2) = ds.flatMap (C02.encDmrsToks o)
  | [] => rfl
  | [d] => by simp [sepLines, C02.tokLines_flat]
  | d :: d2 :: r => by
    have ih := sepLines_flat o k (d2 :: r)
    simp only [sepLines, List.flatMap_append, List.flatMap_cons, C02.tokLines_flat, List.nil_append] at ih ⊢
    rw [ih]

theorem sepLines_ok (o : C02.Opts) (k : Nat) : ∀ ds : List C02.DMRS, (∀ d ∈ ds, C02.lexOK d = true) →
    ∀ p ∈ sepLines o k ds, C02.AllOK p.2
  | [], _ => by intro p hp; cases hp
  | [d], h => by
    intro p hp
    exact C02.tokLines_ok o k d (h d (by simp)) p hp
  | d :: d2 :: r, h => by
    intro p hp
    simp only [sepLines, List.mem_append, List.mem_cons] at hp
    rcases hp with hp | hp | hp
    · exact C02.tokLines_ok o k d (h d (by simp)) p hp
    · subst hp
      intro t ht
      cases ht
    · exact sepLines_ok o k (d2 :: r) (fun x hx => h x (by simp [hx])) p hp

/-- **the frame composed with the real SimpleDMRS codec**: for every list of DMRSs inside C02's hypotheses
(well-formed, expressible in SimpleDMRS, lexically expressible), in each of the three layouts `convert` can
produce (plain, `indent=k`, `-lines`), C02's model of `simpledmrs.loads` (regex-lexer model + parser) reads the
text that C20's `assemble` builds from the encoder's item texts as exactly the N structures (up to what
SimpleDMRS carries under the options), in order. -/
theorem loads_convert_simpledmrs (o : C02.Opts) (indent : Option Nat) (lines : Bool) (ds : List C02.DMRS)
    (h : ∀ d ∈ ds, d.WF ∧ C02.ExpressibleSD d) (hl : ∀ d ∈ ds, C02.lexOK d = true) :
    C02.decodeTextList (sdDoc o indent lines ds) = .ok (ds.map (C02.viewS o)) := by
  unfold sdDoc
  rw [assemble_plain]
  cases lines with
  | true =>
    simp only [if_true, plain_eff_lines, sdItem_none]
    rw [← joinNL_eq]
    have e : ds.map (C02.encodeText o) = (ds.map (fun d => ((0 : Nat), C02.encDmrsToks o d))).map C02.lineText := by
      simp [List.map_map, Function.comp_def, lineText_zero, C02.encodeText]
    rw [e]
    unfold C02.decodeTextList
    rw [C02.lexText_lines]
    · have : (ds.map (fun d => ((0 : Nat), C02.encDmrsToks o d))).flatMap (·.2) = ds.flatMap (C02.encDmrsToks o) := by
        induction ds <;> simp_all
      rw [this]
      exact C02.decodeList_encDmrsToks o ds h
    · intro p hp
      obtain ⟨d, hd, rfl⟩ := List.mem_map.mp hp
      exact C02.allOK_dmrs o d (hl d hd)
  | false =>
    cases indent with
    | none =>
      simp only [Option.isSome_none, plain_eff_plain, sdItem_none, Bool.false_eq_true, if_false]
      rw [join_blank_eq_list]
      exact C02.decodeTextList_encodeTextList o ds h hl
    | some k =>
      simp only [Option.isSome_some, plain_eff_indent, sdItem_some, Bool.false_eq_true, if_false]
      rw [join_blankline_eq]
      unfold C02.decodeTextList
      rw [C02.lexText_lines _ (sepLines_ok o k ds hl), sepLines_flat]
      exact C02.decodeList_encDmrsToks o ds h

/-- … and it is the frame of the `simpledmrs` row of the generated codec table that was used. -/
theorem loads_convert_simpledmrs_row (c : C20.Codec) (hc : C20.getCodec sdName = .ok c)
    (o : C02.Opts) (indent : Option Nat) (lines : Bool) (ds : List C02.DMRS)
    (h : ∀ d ∈ ds, d.WF ∧ C02.ExpressibleSD d) (hl : ∀ d ∈ ds, C02.lexOK d = true) :
    C02.decodeTextList (C20.assemble (C20.frameOf c) indent.isSome lines
      (ds.map (sdItem o (if lines then none else indent)))) = .ok (ds.map (C02.viewS o)) := by
  rw [sd_frame c hc]
  exact loads_convert_simpledmrs o indent lines ds h hl

/-- `-lines` target read the way a `-lines` SOURCE is read (one `decode` per line): the line reader returns the N
item texts and each decodes to its structure. -/
theorem lines_convert_simpledmrs (o : C02.Opts) (indent : Option Nat) (ds : List C02.DMRS)
    (h : ∀ d ∈ ds, d.WF ∧ C02.ExpressibleSD d) (hl : ∀ d ∈ ds, C02.lexOK d = true) :
    C20.splitLines (sdDoc o indent true ds) = ds.map (C02.encodeText o) ∧
    ∀ d ∈ ds, C02.decodeText (C02.encodeText o d) = .ok (C02.viewS o d) := by
  refine ⟨?_, fun d hd => C02.decodeText_encodeText o d (h d hd).1 (h d hd).2 (hl d hd)⟩
  unfold sdDoc
  simp only [if_true, sdItem_none]
  apply C20.assemble_read_lines
  intro it hit
  obtain ⟨d, hd, rfl⟩ := List.mem_map.mp hit
  refine ⟨?_, ?_⟩
  · have := enc_ne_nil o d
    unfold C02.encodeText
    cases ht : C02.encDmrsToks o d with
    | nil => exact absurd ht this
    | cons t r =>
      cases r with
      | nil =>
        -- a single token cannot be a whole encoding, but its text is non-empty anyway
        have h1 := enc_head o d
        rw [ht] at h1
        simp only [List.head?_cons, Option.some.injEq] at h1
        subst h1
        simp [C02.render, C02.tokText, C02.sym, C02.S]
      | cons u r' =>
        have h1 := enc_head o d
        rw [ht] at h1
        simp only [List.head?_cons, Option.some.injEq] at h1
        subst h1
        simp only [C02.render]
        split <;> simp [C02.tokText, C02.sym, C02.S]
  · intro hmem
    have := C02.render_noLB _ (C02.allOK_dmrs o d (hl d hd)) '\n' hmem
    exact absurd this (by decide)

/-! ### native EDS: the frame composed with C03's encoder text and `loads` model -/

def edsName : C20.Str := ['e', 'd', 's']

theorem eds_row : (C20.getCodec edsName).toOption.map C20.frameOf = some plainFrame := by decide

theorem eds_frame (c : C20.Codec) (hc : C20.getCodec edsName = .ok c) : C20.frameOf c = plainFrame := by
  have h := eds_row
  rw [hc] at h
  simpa [Except.toOption] using h

theorem joinStr_eq (sep : C20.Str) : ∀ ps : List C20.Str, C03.joinStr sep ps = C20.joinWith sep ps
  | [] => rfl
  | [p] => rfl
  | p :: q :: r => by
    have ih := joinStr_eq sep (q :: r)
    show p ++ sep ++ C03.joinStr sep (q :: r) = p ++ (sep ++ C20.joinWith sep (q :: r))
    rw [ih, List.append_assoc]

/-- plain and indented layouts: C20's assembly of the encoder's item texts IS the codec's own `dumps` text -/
theorem assemble_eq_dumpsText (o : C03.Opts) (es : List C03.EDS) :
    C20.assemble plainFrame o.indent false (es.map (C03.textE o)) = C03.dumpsText o es := by
  rw [assemble_plain, C03.dumpsText, joinStr_eq]
  cases o.indent <;> simp [plain_eff_plain, plain_eff_indent]

/-- **the frame composed with the real native-EDS codec** (plain and `indent` layouts): C03's model of
`eds.loads` (regex-lexer model + parser) reads the text C20's `assemble` builds from the encoder's item texts as
exactly the N graphs (up to what the native format carries under the options), in order — for every list of
graphs inside C03's hypotheses (`Expressible`, `lexOKb`). -/
theorem loads_convert_eds (o : C03.Opts) (es : List C03.EDS) (hx : ∀ e ∈ es, C03.Expressible e)
    (hok : ∀ e ∈ es, C03.Lex.lexOKb o e = true) :
    C03.Lex.loadsText (C20.assemble plainFrame o.indent false (es.map (C03.textE o))) =
      .ok (es.map (C03.viewE o)) := by
  rw [assemble_eq_dumpsText]
  exact C03.docs_roundtrip_text o es hx hok

theorem loads_convert_eds_row (c : C20.Codec) (hc : C20.getCodec edsName = .ok c) (o : C03.Opts)
    (es : List C03.EDS) (hx : ∀ e ∈ es, C03.Expressible e) (hok : ∀ e ∈ es, C03.Lex.lexOKb o e = true) :
    C03.Lex.loadsText (C20.assemble (C20.frameOf c) o.indent false (es.map (C03.textE o))) =
      .ok (es.map (C03.viewE o)) := by
  rw [eds_frame c hc]
  exact loads_convert_eds o es hx hok

theorem lex_joinNL_eds (o : C03.Opts) : ∀ es : List C03.EDS, (∀ e ∈ es, C03.Lex.lexOKb o e = true) →
    C03.Lex.lex (C20.joinWith ['\n'] (es.map (C03.textE o))) = some (es.flatMap (C03.toksE o))
  | [], _ => by simpa [C20.joinWith] using C03.Lex.lex_nil
  | [e], h => by
    simpa [C20.joinWith] using C03.lexer_reads_encoder_text o e (h e (by simp))
  | e :: f :: r, h => by
    have h1 := C03.lexer_reads_encoder_text o e (h e (by simp))
    have ih := lex_joinNL_eds o (f :: r) (fun x hx => h x (by simp [hx]))
    have := C03.Lex.lex_append_nl h1 ih
    simpa [C20.joinWith, List.flatMap_cons] using this

/-- the `-lines` layout (one graph per line, whatever the indent argument): `eds.loads` reads the N graphs -/
theorem loads_convert_eds_lines (o : C03.Opts) (i : Bool) (es : List C03.EDS) (hx : ∀ e ∈ es, C03.Expressible e)
    (hok : ∀ e ∈ es, C03.Lex.lexOKb o e = true) :
    C03.Lex.loadsText (C20.assemble plainFrame i true (es.map (C03.textE o))) = .ok (es.map (C03.viewE o)) := by
  rw [assemble_plain, plain_eff_lines]
  simp [C03.Lex.loadsText, lex_joinNL_eds o es hok, C03.docs_roundtrip o es hx]

/-! ### "loads(convert(items)) is exactly the N converted structures": the whole pipeline

source reader (C01, SimpleMRS tokens) → converter (C04 / C05 through the adapters) → target encoder (C02 / C03)
→ C20's document frame → the target codec's `loads` model. -/

open Verif.Integration in
/-- **simplemrs → simpledmrs, documents, with the frame**: for a multi-item SimpleMRS document every item of
which converts inside the hypotheses (and whose converted graph is lexically expressible), Integration's model
of `convert` yields N DMRSs `ds`; the text that C20's `assemble` builds around their SimpleDMRS encodings — with
the frame of the `simpledmrs` row of the generated table, plain, with `indent=k`, or as `-lines` — is read by
C02's model of `simpledmrs.loads` as exactly `ds.map view`, N structures in input order. -/
theorem convert_doc_frame_simplemrs_simpledmrs (c : C20.Codec) (hrow : C20.getCodec sdName = .ok c)
    (o1 : C01.Opts) (o : C02.Opts) (indent : Option Nat) (lines : Bool) (ms : List C01.MRS)
    (he : ∀ m1 ∈ ms, C01.ExprS m1)
    (hc : ∀ m1 ∈ ms, ∃ m d, toSem (C01.decodedS o1 m1) = some m ∧ C04.fromMrs m = .ok d ∧
      C04.BaseIdsDistinct m ∧ PropsAreDicts m ∧ SDStrings m ∧
      C02.lexOK (toC02 (graphInfoOf (C01.decodedS o1 m1)) d) = true) :
    ∃ ds : List C02.DMRS, ds.length = ms.length ∧
      convDocSD o (C01.toksMany o1 ms) = .ok (ds.flatMap (C02.encDmrsToks o)) ∧
      C02.decodeTextList (C20.assemble (C20.frameOf c) indent.isSome lines
        (ds.map (sdItem o (if lines then none else indent)))) = .ok (ds.map (C02.viewS o)) := by
  obtain ⟨ds, hds, hlen, hall⟩ := mapP_ok_of_forall mrsToDmrs
    (fun m1' c => ∃ m d, toSem m1' = some m ∧ C04.fromMrs m = .ok d ∧ C04.BaseIdsDistinct m ∧
      PropsAreDicts m ∧ SDStrings m ∧ c = toC02 (graphInfoOf m1') d ∧ C02.lexOK c = true)
    (ms.map (C01.decodedS o1)) (by
      intro m1' hm1'
      obtain ⟨m1, hm1, rfl⟩ := List.mem_map.mp hm1'
      obtain ⟨m, d, hm, hd, hN, hD, hS, hL⟩ := hc m1 hm1
      exact ⟨_, mrsToDmrs_eq _ m hm d hd, m, d, hm, hd, hN, hD, hS, rfl, hL⟩)
  refine ⟨ds, by rw [hlen, List.length_map], ?_, ?_⟩
  · unfold convDocSD
    rw [readDoc_toksMany o1 ms he]
    simp only [bindP, hds]
  · apply loads_convert_simpledmrs_row c hrow
    · intro x hx
      obtain ⟨_, _, _, m, d, _, hd, hN, hD, hS, rfl, _⟩ := hall x hx
      exact ⟨toC02_wf _ m hN d hd, toC02_expressibleSD _ m hN hD hS d hd⟩
    · intro x hx
      obtain ⟨_, _, _, m, d, _, _, _, _, _, _, hL⟩ := hall x hx
      exact hL

open Verif.Integration in
/-- **simplemrs → eds, documents, with the frame** (plain and `indent` layouts; `o.indent` is the indent flag). -/
theorem convert_doc_frame_simplemrs_eds (c : C20.Codec) (hrow : C20.getCodec edsName = .ok c)
    (o1 : C01.Opts) (pm : C05.PM) (hpm : pm = .off ∨ pm = .std) (o : C03.Opts)
    (ms : List C01.MRS) (he : ∀ m1 ∈ ms, C01.ExprS m1)
    (hc : ∀ m1 ∈ ms, (C01.decodedS o1 m1).ident ≠ some [] ∧
      ∃ m e w, toSem (C01.decodedS o1 m1) = some m ∧ C05.fromMrs pm true m = .ok (e, w) ∧
        m.hasIVProperty = true ∧ C05.NoReserved m ∧ C05.ExpressibleM m ∧
        C03.Lex.lexOKb o (toC03 (C01.decodedS o1 m1).ident e) = true) :
    ∃ es : List C03.EDS, es.length = ms.length ∧
      convDocE pm o (C01.toksMany o1 ms) = .ok (es.flatMap (C03.toksE o)) ∧
      C03.Lex.loadsText (C20.assemble (C20.frameOf c) o.indent false (es.map (C03.textE o))) =
        .ok (es.map (C03.viewE o)) := by
  obtain ⟨es, hes, hlen, hall⟩ := mapP_ok_of_forall (mrsToEds pm)
    (fun _ c => C03.Expressible c ∧ C03.Lex.lexOKb o c = true)
    (ms.map (C01.decodedS o1)) (by
      intro m1' hm1'
      obtain ⟨m1, hm1, rfl⟩ := List.mem_map.mp hm1'
      obtain ⟨hid, m, e, w, hm, hd, hiv, hnr, hx, hL⟩ := hc m1 hm1
      exact ⟨_, mrsToEds_eq pm _ m hm e w hd,
        (mrs_eds_expressible pm true m hiv hnr hx hpm _ hid e w hd).1, hL⟩)
  refine ⟨es, by rw [hlen, List.length_map], ?_, ?_⟩
  · unfold convDocE
    rw [readDoc_toksMany o1 ms he]
    simp only [bindP, hes]
  · apply loads_convert_eds_row c hrow
    · intro x hx
      obtain ⟨_, _, _, hE, _⟩ := hall x hx
      exact hE
    · intro x hx
      obtain ⟨_, _, _, _, hL⟩ := hall x hx
      exact hL

/-! ### documents for the dictionary-level targets (the JSON text itself is C02's / C03's parameter) -/

open Verif.Integration in
/-- **T3, documents** (simplemrs → dmrsjson): one dictionary per input item, in order, each read back by
`from_dict` as C02's JSON view of the converted graph. -/
theorem convert_doc_simplemrs_dmrsjson (o1 : C01.Opts) (o : C02.Opts) (ms : List C01.MRS)
    (he : ∀ m1 ∈ ms, C01.ExprS m1)
    (hc : ∀ m1 ∈ ms, ∃ m d, toSem (C01.decodedS o1 m1) = some m ∧ C04.fromMrs m = .ok d ∧
      C04.BaseIdsDistinct m ∧ PropsAreDicts m ∧ JStrings m) :
    ∃ ds : List C02.DMRS, ds.length = ms.length ∧
      convDocJ o (C01.toksMany o1 ms) = .ok (ds.map (C02.toDict o)) ∧
      ∀ d ∈ ds, C02.fromDict (C02.toDict o d) = .ok (C02.viewJ o d) := by
  obtain ⟨ds, hds, hlen, hall⟩ := mapP_ok_of_forall mrsToDmrs
    (fun m1' c => ∃ m d, toSem m1' = some m ∧ C04.fromMrs m = .ok d ∧ C04.BaseIdsDistinct m ∧
      PropsAreDicts m ∧ JStrings m ∧ c = toC02 (graphInfoOf m1') d)
    (ms.map (C01.decodedS o1)) (by
      intro m1' hm1'
      obtain ⟨m1, hm1, rfl⟩ := List.mem_map.mp hm1'
      obtain ⟨m, d, hm, hd, hN, hD, hS⟩ := hc m1 hm1
      exact ⟨_, mrsToDmrs_eq _ m hm d hd, m, d, hm, hd, hN, hD, hS, rfl⟩)
  refine ⟨ds, by rw [hlen, List.length_map], ?_, ?_⟩
  · unfold convDocJ
    rw [readDoc_toksMany o1 ms he]
    simp only [bindP, hds]
  · intro x hx
    obtain ⟨_, _, _, m, d, _, hd, hN, hD, hS, rfl⟩ := hall x hx
    exact mrs_dmrs_dmrsjson_roundtrip o _ m hN hD hS d hd

open Verif.Integration in
/-- **T3, documents** (simplemrs → edsjson): one dictionary per input item, in order, each read back by
`from_dict` with the same top and the span-sorted JSON view of the nodes (identifier not carried). -/
theorem convert_doc_simplemrs_edsjson (o1 : C01.Opts) (pm : C05.PM) (hpm : pm = .off ∨ pm = .std) (p l : Bool)
    (ms : List C01.MRS) (he : ∀ m1 ∈ ms, C01.ExprS m1)
    (hc : ∀ m1 ∈ ms, (C01.decodedS o1 m1).ident ≠ some [] ∧
      ∃ m e w, toSem (C01.decodedS o1 m1) = some m ∧ C05.fromMrs pm true m = .ok (e, w) ∧
        m.hasIVProperty = true ∧ C05.NoReserved m ∧ C05.ExpressibleM m ∧ IVsPlain m) :
    ∃ es : List C03.EDS, es.length = ms.length ∧
      convDocEJ pm p l (C01.toksMany o1 ms) = .ok (es.map (C03.toDict p l)) ∧
      ∀ e ∈ es, C03.fromDict (C03.toDict p l e) =
        { top := e.top, nodes := C03.sortStable C03.spanLt (e.nodes.map (C03.viewJNode p l)), identifier := none } := by
  obtain ⟨es, hes, hlen, hall⟩ := mapP_ok_of_forall (mrsToEds pm)
    (fun _ c => C03.fromDict (C03.toDict p l c) =
      { top := c.top, nodes := C03.sortStable C03.spanLt (c.nodes.map (C03.viewJNode p l)), identifier := none })
    (ms.map (C01.decodedS o1)) (by
      intro m1' hm1'
      obtain ⟨m1, hm1, rfl⟩ := List.mem_map.mp hm1'
      obtain ⟨hid, m, e, w, hm, hd, hiv, hnr, hx, hp⟩ := hc m1 hm1
      exact ⟨_, mrsToEds_eq pm _ m hm e w hd,
        mrs_eds_json_roundtrip pm true m hiv hnr hx hpm hp _ hid p l e w hd⟩)
  refine ⟨es, by rw [hlen, List.length_map], ?_, ?_⟩
  · unfold convDocEJ
    rw [readDoc_toksMany o1 ms he]
    simp only [bindP, hes]
  · intro x hx
    obtain ⟨_, _, _, h⟩ := hall x hx
    exact h

end Verif.Integration.Frame
