/-
Integration layer — adapters between the islands' types and the COMPOSED model functions.

The codec properties C01 (MRS), C02 (DMRS), C03 (EDS) each have their own structure types over
`List Char`; the converters C04 (`dmrs.from_mrs`, `mrs.from_dmrs`) and C05 (`eds.from_mrs`) work on the
shared semantic core `Verif.Sem` over `String` / `Var`.  This file defines

  * total adapter functions   Sem.DMRS → C02.DMRS (`toC02`) and back (`ofC02`),
                              C05.EDS  → C03.EDS  (`toC03`),
                              C01.MRS  → Sem.MRS  (`toSem`, `none` = outside the shared core) and
                              Sem.MRS  → C01.MRS  (`ofSem`);
  * the decidable hypotheses on the SOURCE MRS under which the composition theorems of
    `Verif/Integration/Props.lean` hold (what the target codecs need of predicates / strings);
  * the composed model of `commands.convert` for one SimpleMRS item / document and the targets
    SimpleDMRS, DMRX, DMRS-JSON, native EDS, EDS-JSON (`convSD`, `convX`, `convJ`, `convE`, `convEJ`, …).

What the adapters stand for in /repo: nothing is executed there — a pydelphin object IS at the same time
"the C04 output" and "the C02 input"; the adapters only change the modelling conventions
(`String` ↔ `List Char`, `Var` ↔ its spelling `sort ++ str(vid)`, `Option (Int × Int)` ↔ `Lnk`).  That they
are faithful is proved (`AdaptLemmas.lean`: adapter round trips, injectivity of `varStr`) and exercised by
the correspondence run of harness/integration.py, which feeds the SAME real object to the real converter
and to the real codec.

Core Lean only.
-/
import Verif.Common.Sem
import Verif.Common.Codec
import Verif.C01.Model
import Verif.C01.Spec
import Verif.C02.Model
import Verif.C03.Model
import Verif.C03.View
import Verif.C04.Model
import Verif.C05.Model

namespace Verif.Integration
open Verif.Codec Verif.Sem

/-! ## atoms -/

/-- the spelling of a variable: `'{}{}'.format(sort, vid)` -/
def varStr (v : Var) : Str := v.sort.toList ++ natStr v.vid

/-- `Lnk.charspan(a, b)` / no alignment -/
def lnkOf : Option (Int × Int) → Lnk
  | none => .unspec
  | some (a, b) => .charspan a b

/-- the way back (alignments other than character spans are outside the shared core) -/
def lnkBack : Lnk → Option (Int × Int)
  | .charspan a b => some (a, b)
  | _ => none

def propsTo (ps : Sem.Props) : List (Str × Str) := ps.map (fun kv => (kv.1.toList, kv.2.toList))
def propsOf (ps : List (Str × Str)) : Sem.Props := ps.map (fun kv => (String.ofList kv.1, String.ofList kv.2))

/-- what `from_mrs` copies from the MRS to the graph: `lnk=m.lnk, surface=m.surface,
identifier=m.identifier` (not part of the shared core) -/
structure GraphInfo where
  lnk : Lnk := .unspec
  surface : Option Str := none
  identifier : Option Str := none
deriving Repr, DecidableEq

/-! ## DMRS: Sem ↔ C02 -/

def nodeToC02 (n : Sem.Node) : C02.Node :=
  { id := n.id, pred := n.predicate.toList, type := n.type.map String.toList,
    props := propsTo n.properties, carg := n.carg.map String.toList, lnk := lnkOf n.lnk,
    surface := n.surface.map String.toList, base := n.base.map String.toList }

def linkToC02 (l : Sem.Link) : C02.Link :=
  { start := l.start, stop := l.stop, role := some l.role.toList, post := some l.post.toList }

/-- the DMRS object `dmrs.from_mrs` returns, as the C02 codecs see it -/
def toC02 (g : GraphInfo) (d : Sem.DMRS) : C02.DMRS :=
  { top := d.top, index := d.index, nodes := d.nodes.map nodeToC02, links := d.links.map linkToC02,
    lnk := g.lnk, surface := g.surface, identifier := g.identifier }

def nodeOfC02 (n : C02.Node) : Sem.Node :=
  { id := n.id, predicate := String.ofList n.pred, type := n.type.map String.ofList,
    properties := propsOf n.props, carg := n.carg.map String.ofList, lnk := lnkBack n.lnk,
    surface := n.surface.map String.ofList, base := n.base.map String.ofList }

/-- a link without role / post (possible out of DMRX / JSON input only) is read with the empty string -/
def linkOfC02 (l : C02.Link) : Sem.Link :=
  ⟨l.start, l.stop, String.ofList (l.role.getD []), String.ofList (l.post.getD [])⟩

def ofC02 (d : C02.DMRS) : Sem.DMRS :=
  { top := d.top, index := d.index, nodes := d.nodes.map nodeOfC02, links := d.links.map linkOfC02 }

def graphInfoOfC02 (d : C02.DMRS) : GraphInfo := ⟨d.lnk, d.surface, d.identifier⟩

/-! ## EDS: C05 → C03 -/

/-- node surface / base strings are not part of any EDS serialisation modelled by C03 -/
def enodeToC03 (n : C05.ENode) : C03.Node :=
  { id := varStr n.id, pred := n.predicate.toList, type := n.type.map String.toList,
    edges := n.edges.map (fun rt => (rt.1.toList, varStr rt.2)),
    props := propsTo n.properties, carg := n.carg.map String.toList, lnk := lnkOf n.lnk }

/-- the EDS object `eds.from_mrs` returns, as the C03 codecs see it -/
def toC03 (ident : Option Str) (e : C05.EDS) : C03.EDS :=
  { top := e.top.map varStr, nodes := e.nodes.map enodeToC03, identifier := ident }

/-! ## MRS: C01 ↔ Sem -/

/-- `variable.split` into the shared core's pair; only canonical numerals (`str(int(vid)) == vid`) -/
def parseVar (s : Str) : Option Var :=
  match parseNat (C01.varSplit s).2 with
  | some n => if natStr n = (C01.varSplit s).2 then some ⟨String.ofList (C01.varSplit s).1, n⟩ else none
  | none => none

def optVar : Option Str → Option (Option Var)
  | none => some none
  | some s => (parseVar s).map some

def argToSem (a : Str × Str) : Option (Role × Var) := (parseVar a.2).map (fun v => (String.ofList a.1, v))

/-- alignments of the shared core: a character span or none -/
def lnkToSem : Lnk → Option (Option (Int × Int))
  | .unspec => some none
  | .charspan a b => some (some (a, b))
  | _ => none

def epToSem (e : C01.EP) : Option Sem.EP :=
  match parseVar e.label, mapMOpt argToSem (e.args.filter (fun a => a.1 ≠ C01.CARG)), lnkToSem e.lnk with
  | some label, some args, some lnk =>
    some { predicate := String.ofList e.pred, label := label, args := args,
           carg := (C01.dget e.args C01.CARG).map String.ofList, lnk := lnk,
           surface := e.surface.map String.ofList, base := e.base.map String.ofList }
  | _, _, _ => none

def hconsToSem (c : C01.Cons) : Option Sem.HCons :=
  match parseVar c.lhs, parseVar c.rhs with
  | some a, some b => some ⟨a, String.ofList c.rel, b⟩
  | _, _ => none

def iconsToSem (c : C01.Cons) : Option Sem.ICons :=
  match parseVar c.lhs, parseVar c.rhs with
  | some a, some b => some ⟨a, String.ofList c.rel, b⟩
  | _, _ => none

def varPropsToSem (vp : Str × C01.Props) : Option (Var × Sem.Props) :=
  (parseVar vp.1).map (fun v => (v, propsOf vp.2))

/-- the MRS object the C01 decoders return, as the converters C04/C05 see it; `none` when it is outside the
shared core (a variable that is not `sort ++ canonical numeral`, an alignment that is not a character span) -/
def toSem (m : C01.MRS) : Option Sem.MRS :=
  match optVar m.top, optVar m.index, mapMOpt epToSem m.rels, mapMOpt hconsToSem m.hcons,
        mapMOpt iconsToSem m.icons, mapMOpt varPropsToSem m.vars with
  | some top, some index, some rels, some hcons, some icons, some vars =>
    some { top := top, index := index, rels := rels, hcons := hcons, icons := icons, variables := vars }
  | _, _, _, _, _, _ => none

def graphInfoOf (m : C01.MRS) : GraphInfo := ⟨m.lnk, m.surface, m.ident⟩

def epOfSem (e : Sem.EP) : C01.EP :=
  { pred := e.predicate.toList, label := varStr e.label,
    args := e.args.map (fun a => (a.1.toList, varStr a.2)) ++
      (match e.carg with | some c => [(C01.CARG, c.toList)] | none => []),
    lnk := lnkOf e.lnk, surface := e.surface.map String.toList, base := e.base.map String.toList }

/-- a shared-core MRS as a C01 structure (the constant argument last, as `semgen.ep_from_json` builds it) -/
def ofSem (g : GraphInfo) (m : Sem.MRS) : C01.MRS :=
  { top := m.top.map varStr, index := m.index.map varStr, rels := m.rels.map epOfSem,
    hcons := m.hcons.map (fun c => ⟨varStr c.hi, c.rel.toList, varStr c.lo⟩),
    icons := m.icons.map (fun c => ⟨varStr c.left, c.rel.toList, varStr c.right⟩),
    vars := m.variables.map (fun vp => (varStr vp.1, propsTo vp.2)),
    lnk := g.lnk, surface := g.surface, ident := g.identifier }

/-! ## hypotheses on the source MRS (all decidable; evaluated by the driver on every generated case) -/

/-- a property of the intrinsic variable of a predication, if it has one -/
def ivAll (e : Sem.EP) (p : Var → Prop) : Prop :=
  match e.iv with
  | some v => p v
  | none => True

instance (e : Sem.EP) (p : Var → Prop) [DecidablePred p] : Decidable (ivAll e p) := by
  unfold ivAll; split <;> infer_instance

/-- sorts are spelled without a final digit (`variable._variable_re`: `[-\w]*[^\s\d]` then `\d+`), so that
the spelling `sort ++ str(vid)` determines the pair -/
def sortPlain (s : String) : Prop := ∀ c ∈ s.toList.getLast?, c.isDigit = false

instance (s : String) : Decidable (sortPlain s) := by unfold sortPlain; infer_instance

/-- every variable of the MRS is spelled `sort ++ numeral` with a sort that does not end in a digit -/
def VarsPlain (m : Sem.MRS) : Prop :=
  (∀ v ∈ m.top, sortPlain v.sort) ∧ (∀ v ∈ m.index, sortPlain v.sort) ∧
  (∀ e ∈ m.rels, sortPlain e.label.sort ∧ ∀ a ∈ e.args, sortPlain a.2.sort) ∧
  (∀ c ∈ m.hcons, sortPlain c.hi.sort ∧ sortPlain c.lo.sort) ∧
  (∀ c ∈ m.icons, sortPlain c.left.sort ∧ sortPlain c.right.sort) ∧
  (∀ vp ∈ m.variables, sortPlain vp.1.sort)

instance (m : Sem.MRS) : Decidable (VarsPlain m) := by unfold VarsPlain; infer_instance

/-- the intrinsic variables are spelled with a sort that does not end in a digit (then so are the node
identifiers of `eds.from_mrs`, which are intrinsic variables or generated `_k`) -/
def IVsPlain (m : Sem.MRS) : Prop := ∀ ep ∈ m.rels, ivAll ep (fun v => sortPlain v.sort)

instance (m : Sem.MRS) : Decidable (IVsPlain m) := by unfold IVsPlain; infer_instance

/-- the variable arguments of an EP do not use the role name of the constant argument (it is a separate
field of `Sem.EP`) -/
def NoCargRole (m : Sem.MRS) : Prop := ∀ e ∈ m.rels, ∀ a ∈ e.args, a.1.toList ≠ C01.CARG

instance (m : Sem.MRS) : Decidable (NoCargRole m) := by unfold NoCargRole; infer_instance

/-- `m.variables` and every property map are Python dicts: no key twice -/
def PropsAreDicts (m : Sem.MRS) : Prop := ∀ vp ∈ m.variables, (vp.2.map (·.1)).Nodup

instance (m : Sem.MRS) : Decidable (PropsAreDicts m) := by unfold PropsAreDicts; infer_instance

/-- what SimpleDMRS needs of the strings of `m` (token level): role names and the sorts of intrinsic variables
are not empty; property names survive `.upper()`, values `.lower()` (ASCII case mapping of C02). -/
def SDStrings (m : Sem.MRS) : Prop :=
  (∀ e ∈ m.rels, (∀ a ∈ e.args, a.1 ≠ "") ∧ ivAll e (fun v => v.sort ≠ "")) ∧
  (∀ vp ∈ m.variables, ∀ kv ∈ vp.2,
    C02.upper kv.1.toList = kv.1.toList ∧ C02.lower kv.2.toList = kv.2.toList)

instance (m : Sem.MRS) : Decidable (SDStrings m) := by unfold SDStrings; infer_instance

/-- what DMRX needs: predicates in `predicate.normalize` form and not empty, role names not empty, sorts of
intrinsic variables lower-case, property names upper-case and not `CVARSORT`, values lower-case. -/
def XStrings (m : Sem.MRS) : Prop :=
  (∀ e ∈ m.rels, C02.normalizePred e.predicate.toList = e.predicate.toList ∧ e.predicate ≠ "" ∧
    (∀ a ∈ e.args, a.1 ≠ "") ∧ ivAll e (fun v => C02.lower v.sort.toList = v.sort.toList)) ∧
  (∀ vp ∈ m.variables, ∀ kv ∈ vp.2,
    C02.upper kv.1.toList = kv.1.toList ∧ C02.lower kv.1.toList ≠ C02.CVARSORT ∧
    C02.lower kv.2.toList = kv.2.toList)

instance (m : Sem.MRS) : Decidable (XStrings m) := by unfold XStrings; infer_instance

/-- what DMRS-JSON needs: no property is called `cvarsort` (the key under which the node type is stored). -/
def JStrings (m : Sem.MRS) : Prop :=
  ∀ vp ∈ m.variables, ∀ kv ∈ vp.2, kv.1.toList ≠ C02.CVARSORT

instance (m : Sem.MRS) : Decidable (JStrings m) := by unfold JStrings; infer_instance

/-- F11 seen from the source: SimpleDMRS does not write the node type `u`, which `from_mrs` gives to a
predication whose intrinsic variable has the sort `u` and to one without intrinsic variable. -/
def NoUSort (m : Sem.MRS) : Prop :=
  ∀ e ∈ m.rels, e.isQuantifier = true ∨ (e.iv.isSome = true ∧ ivAll e (fun v => v.sort ≠ "u"))

instance (m : Sem.MRS) : Decidable (NoUSort m) := by unfold NoUSort; infer_instance

/-- no predication carries a surface string or a base form (SimpleDMRS writes neither) -/
def NoSurfaceBase (m : Sem.MRS) : Prop := ∀ e ∈ m.rels, e.surface = none ∧ e.base = none

instance (m : Sem.MRS) : Decidable (NoSurfaceBase m) := by unfold NoSurfaceBase; infer_instance

/-- no predication is aligned to `<-1:-1>` (DMRS-JSON / SimpleDMRS / EDS treat it as "no alignment") -/
def LnkTruthy (m : Sem.MRS) : Prop := ∀ e ∈ m.rels, e.lnk ≠ some (-1, -1)

instance (m : Sem.MRS) : Decidable (LnkTruthy m) := by unfold LnkTruthy; infer_instance

/-- every predication is aligned (DMRX writes `cfrom="-1" cto="-1"` for a missing alignment) -/
def AllAligned (m : Sem.MRS) : Prop := ∀ e ∈ m.rels, e.lnk.isSome = true

instance (m : Sem.MRS) : Decidable (AllAligned m) := by unfold AllAligned; infer_instance

/-! ## the composed model of `commands.convert` on SimpleMRS input -/

inductive PErr where
  | src (e : C01.E)        -- the SimpleMRS decoder failed
  | adapt                  -- the decoded MRS is outside the shared core
  | c04 (e : C04.Err)      -- `dmrs.from_mrs` raised
  | c05 (e : C05.E)        -- `eds.from_mrs` raised
  | c02 (e : C02.Err)      -- the DMRS encoder raised
  | c03 (e : C03.Err)      -- the EDS encoder raised
deriving Repr, DecidableEq

/-- `converter(x)` for `mrs → dmrs`: the C02 structure of `dmrs.from_mrs(x)` -/
def mrsToDmrs (m1 : C01.MRS) : Except PErr C02.DMRS :=
  match toSem m1 with
  | none => .error .adapt
  | some m =>
    match C04.fromMrs m with
    | .error e => .error (.c04 e)
    | .ok d => .ok (toC02 (graphInfoOf m1) d)

/-- `converter(x)` for `mrs → eds`: the C03 structure of
`eds.from_mrs(x, predicate_modifiers=pm)` (`unique_ids` left at its default `True`) -/
def mrsToEds (pm : C05.PM) (m1 : C01.MRS) : Except PErr C03.EDS :=
  match toSem m1 with
  | none => .error .adapt
  | some m =>
    match C05.fromMrs pm true m with
    | .error e => .error (.c05 e)
    | .ok (e, _) => .ok (toC03 m1.ident e)

/-- `source_codec.decode` on the token list of one item -/
def readItem (ts : List C01.T) : Except PErr C01.MRS :=
  match C01.parse ts with
  | .error e => .error (.src e)
  | .ok (m, _) => .ok m

def bindP {α β} (x : Except PErr α) (f : α → Except PErr β) : Except PErr β :=
  match x with
  | .error e => .error e
  | .ok a => f a

def liftX {α} : Except C02.Err α → Except PErr α
  | .ok a => .ok a
  | .error e => .error (.c02 e)

def liftE {α} : Except C03.Err α → Except PErr α
  | .ok a => .ok a
  | .error e => .error (.c03 e)

/-- simplemrs → simpledmrs (token level) -/
def convSD (o : C02.Opts) (ts : List C01.T) : Except PErr (List C02.T) :=
  bindP (bindP (readItem ts) mrsToDmrs) (fun d => .ok (C02.encDmrsToks o d))

/-- simplemrs → simpledmrs: the text `simpledmrs.encode` writes -/
def convSDText (o : C02.Opts) (indent : Option Nat) (ts : List C01.T) : Except PErr Str :=
  bindP (bindP (readItem ts) mrsToDmrs) (fun d => .ok (C02.encDmrsText o indent d))

/-- simplemrs → dmrx (ElementTree level) -/
def convX (o : C02.Opts) (ts : List C01.T) : Except PErr C02.XDmrs :=
  bindP (bindP (readItem ts) mrsToDmrs) (fun d => liftX (C02.toXml o d))

/-- simplemrs → dmrsjson (dictionary level) -/
def convJ (o : C02.Opts) (ts : List C01.T) : Except PErr C02.JV :=
  bindP (bindP (readItem ts) mrsToDmrs) (fun d => .ok (C02.toDict o d))

/-- simplemrs → eds (token level) -/
def convE (pm : C05.PM) (o : C03.Opts) (ts : List C01.T) : Except PErr (List C03.Token) :=
  bindP (bindP (readItem ts) (mrsToEds pm)) (fun e => .ok (C03.toksE o e))

/-- simplemrs → eds: the text `eds.encode` writes -/
def convEText (pm : C05.PM) (o : C03.Opts) (ts : List C01.T) : Except PErr Str :=
  bindP (bindP (readItem ts) (mrsToEds pm)) (fun e => liftE (C03.encode o e))

/-- simplemrs → edsjson (dictionary level) -/
def convEJ (pm : C05.PM) (p l : Bool) (ts : List C01.T) : Except PErr C03.JEds :=
  bindP (bindP (readItem ts) (mrsToEds pm)) (fun e => .ok (C03.toDict p l e))

/-- `[f(x) for x in xs]`, the first failure wins -/
def mapP {α β} (f : α → Except PErr β) : List α → Except PErr (List β)
  | [] => .ok []
  | a :: as =>
    match f a with
    | .error e => .error e
    | .ok b =>
      match mapP f as with
      | .error e => .error e
      | .ok bs => .ok (b :: bs)

/-- `source_codec.loads` on the token list of a document -/
def readDoc (ts : List C01.T) : Except PErr (List C01.MRS) :=
  match C01.parseMany (ts.length + 1) ts with
  | .error e => .error (.src e)
  | .ok ms => .ok ms

/-- documents: simplemrs → simpledmrs, the concatenated token lists of the items (every item converts) -/
def convDocSD (o : C02.Opts) (ts : List C01.T) : Except PErr (List C02.T) :=
  bindP (bindP (readDoc ts) (mapP mrsToDmrs)) (fun ds => .ok (ds.flatMap (C02.encDmrsToks o)))

/-- documents: simplemrs → eds -/
def convDocE (pm : C05.PM) (o : C03.Opts) (ts : List C01.T) : Except PErr (List C03.Token) :=
  bindP (bindP (readDoc ts) (mapP (mrsToEds pm))) (fun es => .ok (es.flatMap (C03.toksE o)))

/-- documents: simplemrs → dmrx / dmrsjson / edsjson, item by item -/
def convDocX (o : C02.Opts) (ts : List C01.T) : Except PErr (List C02.XDmrs) :=
  bindP (bindP (readDoc ts) (mapP mrsToDmrs)) (mapP (fun d => liftX (C02.toXml o d)))

def convDocJ (o : C02.Opts) (ts : List C01.T) : Except PErr (List C02.JV) :=
  bindP (bindP (readDoc ts) (mapP mrsToDmrs)) (fun ds => .ok (ds.map (C02.toDict o)))

def convDocEJ (pm : C05.PM) (p l : Bool) (ts : List C01.T) : Except PErr (List C03.JEds) :=
  bindP (bindP (readDoc ts) (mapP (mrsToEds pm))) (fun es => .ok (es.map (C03.toDict p l)))

end Verif.Integration
