-- Root of the `Verif` library: every model, lemma and property file.
import Verif.Common.Proto
import Verif.Common.Py
import Verif.Generated.Tables
import Verif.C08.Model
